#!/bin/bash
# eval_mutant.sh <worktree-with-change-applied> <check-id>... : runs the given
# quick checks (default: all) against a scratch worktree, never touching /repo.
# Output and evidence go to <worktree>/_out.
W="$1"; shift
cd "$(dirname "$0")"
CHECKS="$@"
[ -z "$CHECKS" ] && CHECKS=$(python3 -c "import json;print(' '.join(x['property_id'] for x in json.load(open('MANIFEST.json'))['checks']))")
for c in $CHECKS; do
  out=$(VERIF_REPO="$W" VERIF_OUT_DIR="$W/_out" ./run_check.sh $c ${TIER:-quick} 2>&1); r=$?
  echo "$c rc=$r $(echo "$out" | grep -E '^violation|VIOLATION|INFRA' | head -3 | cut -c1-300 | tr '\n' ' ')"
done
