#!/bin/bash
# Entry point of every registered check.
#   run_check.sh <ID> <quick|thorough>     run one property check
#   run_check.sh replay <file>             replay a stored violation
#   run_check.sh build                     build only (setup)
# Exit codes: 0 property held on everything explored, 1 violation (VIOLATION line
# on stdout), 2 infrastructure error (never reported as a violation).
set -u
VERIF_ROOT="$(cd "$(dirname "$0")" && pwd)"
cd "$VERIF_ROOT"
export GOFLAGS=-mod=mod GOPROXY=off GOSUMDB=off GOTOOLCHAIN=local
export VERIF_DIR="$VERIF_ROOT"
: "${GOMEMLIMIT:=20GiB}"
export GOMEMLIMIT
# a runaway allocation in a modified tree must not take the sandbox down
ulimit -v 60000000 2>/dev/null || true

mkdir -p harness/bin evidence replays
BIN="harness/bin/verif.$$"
MODARGS=""
# VERIF_REPO (default /repo) lets a change be evaluated in a scratch worktree
# without touching /repo: an alternate go.mod replaces the module by that tree.
# Registered commands never set it.
if [ -n "${VERIF_REPO:-}" ] && [ "$VERIF_REPO" != "/repo" ]; then
  export VERIF_MODFILE="$VERIF_ROOT/harness/bin/go.$$.mod"
  sed "s#=> /repo#=> $VERIF_REPO#" harness/go.mod > "$VERIF_MODFILE"
  cp harness/go.sum "${VERIF_MODFILE%.mod}.sum"
  MODARGS="-modfile=$VERIF_MODFILE"
fi
trap 'rm -f "$BIN" "${VERIF_MODFILE:-/nonexistent}" "${VERIF_MODFILE:+${VERIF_MODFILE%.mod}.sum}"' EXIT

build() {
  # rebuilds from /repo's current working tree: go.mod replaces the module by /repo
  (cd harness && go build $MODARGS -o "../$BIN" ./cmd/verif) 2> "harness/bin/build.$$.log"
  rc=$?
  if [ $rc -ne 0 ]; then
    echo "INFRASTRUCTURE ERROR: harness does not build against /repo's working tree" >&2
    cat "harness/bin/build.$$.log" >&2
    rm -f "harness/bin/build.$$.log"
    exit 2
  fi
  rm -f "harness/bin/build.$$.log"
}

case "${1:-}" in
  build)
    build
    exit 0
    ;;
  replay)
    build
    "$BIN" replay "$2"
    exit $?
    ;;
  "")
    echo "usage: $0 <ID> <quick|thorough> | replay <file> | build" >&2
    exit 2
    ;;
  *)
    ID="$1"; TIER="${2:-quick}"
    build
    "$BIN" check "$ID" --tier "$TIER"
    exit $?
    ;;
esac
