#!/usr/bin/env python3
"""stage_mutant.py <worktree> <seeded-id> <demo_dst> <demo_cmd...>: copies <worktree>/_mutant into
/verif/seeded/<seeded-id>/ and normalises meta.json (demo destination and command relative to a worktree root)."""
import json, os, shutil, sys
w, sid, dst = sys.argv[1], sys.argv[2], sys.argv[3]
cmd = " ".join(sys.argv[4:])
d = "/verif/seeded/" + sid
os.makedirs(d, exist_ok=True)
for f in os.listdir(w + "/_mutant"):
    src = os.path.join(w, "_mutant", f)
    if os.path.isdir(src):
        shutil.copytree(src, os.path.join(d, f), dirs_exist_ok=True)
    else:
        shutil.copy(src, d)
m = json.load(open(d + "/meta.json"))
m["agent_demo_cmd"] = m.get("demo_cmd")
m["demo_dst"] = dst
m["demo_cmd"] = cmd
m["origin"] = "written by an independent sub-agent that saw only the property text and a scratch worktree"
json.dump(m, open(d + "/meta.json", "w"), indent=1)
print("staged", d)
