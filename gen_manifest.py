#!/usr/bin/env python3
"""Generates MANIFEST.json from the table below (single source of truth) and validates it."""
import json, sys, os

BASELINE_OFF = ("cd /repo && GOFLAGS=-mod=mod GOPROXY=off GOSUMDB=off GOTOOLCHAIN=local "
                "go test -json -vet=off -count=1 -timeout 25m ./...")

# id: (category, technique, text, note, design_ref)
CHECKS = {
 "C15": ("model_checking",
         "exhaustive value-domain enumeration of the real encoders against a shift/mask reference codec",
         "Every value of the stated finite domains (8/16-bit exhaustive, 32-bit exhaustive in thorough, lane-alphabet products and 1-/2-bit patterns for wider types, every String16 length, Bytes sizes, TypeEncoder structs in both byte orders) is run through the real Encode/Decode/GetSize/GetEncodedSize with 0/1/7 junk bytes appended and compared with a hand-written reference layout. Exhaustive within the stated domains; the right level because the property is a pure function over a value domain that is small enough to enumerate.",
         "Trusts the Go toolchain and the harness' reference codec; only 64-bit int explored.",
         "5.C15"),
}

_SS = ("Small-scope exhaustive exploration of the real implementation: every key set of the bounded universes (all subsets of a 21/85-string universe over a seed-rotated 4-symbol alphabet up to the tier's size), every scaffold (257-bit root / two big levels / short tables of each size / bit-offset shifts / lifted prefixes) applied to every smaller subset, regular large families, measured boundary sweeps (key lists chosen until every structure of the format ends on every bit position of a 64-bit word), every tuple of stored tail / prefix lengths; x every run pattern of equal adjacent values and nil values x encoders x option combinations x {fresh, Unmarshal-loaded, proto-loaded into a used receiver, Unmarshal-loaded into a used receiver} instances, a bystander trie built between each build and its questions. ")
_NOTE = "Bounded: 4-symbol alphabets, <= 4 (quick) / 6 (thorough) free keys per set plus scaffolds; trusts the Go toolchain, the harness' sorted-slice reference model and (for expected values) the library's own encoders, which C15 decides."
CHECKS.update({
 "C01": ("model_checking", "small-scope exhaustive input enumeration on the real builder and lookup code against a sorted-slice reference model",
         _SS + "Oracle: Get on every retained key = (Decode(Encode(v)), true), GetID >= 0. Exhaustive within the stated bounds, every explored trace is an implementation trace.", _NOTE, "5.C01"),
 "C02": ("model_checking", "small-scope exhaustive input enumeration (all run-length patterns over all key subsets) against the reference model",
         _SS + "Oracle: RangeGet on EVERY input key, retained or de-duplicated away, = (value supplied for that key, true).", _NOTE, "5.C02"),
 "C03": ("model_checking", "small-scope exhaustive enumeration of tries x the whole query universe against an exact ordered-map reference",
         _SS + "Complete modes only; every query of the universe one symbol larger and one position longer than the key universe (plus long / all-00 / all-ff strings and per-key mutations), lifted and unlifted. Oracle: Get/GetID found iff retained, RangeGet = value of max{r<=q}, Search = exact neighbours.", _NOTE, "5.C03"),
 "C09": ("model_checking", "small-scope exhaustive input enumeration; neighbour oracle from the sorted retained list",
         _SS + "Oracle: Search on every retained key returns (v_{i-1}|nil, v_i, v_{i+1}|nil) in every option combination and instance.", _NOTE, "5.C09"),
 "C10": ("model_checking", "small-scope exhaustive enumeration of tries x query universe; totality and cross-API consistency relations",
         _SS + "Every query of the query universe in every mode, with and without values. Oracle: no panic; hit value was supplied; Get/GetID/Search-exact agree; Get hit implies RangeGet hit with the same value.", _NOTE, "5.C10"),
 "C13": ("model_checking", "small-scope exhaustive enumeration; the four prefix configurations are built from each input and compared pairwise on the whole query universe",
         _SS + "Oracle over the ordered pairs (both,inner),(both,leaf),(inner,none),(leaf,none),(both,none) with equal DedupValue: found_more => found_less with the same value; both-found => retained; all modes identical on retained keys.", _NOTE, "5.C13"),
 "C14": ("model_checking", "small-scope exhaustive enumeration with lane-alphabet integer values; typed getters compared with Get on the whole query universe",
         _SS + "Encoders I8/I16/I32/I64 with values over the lane alphabet {00,01,7f,80,ff}^width (min, max, -1, 0, 1 first; table rotated on small sets). Oracle: GetIxx(q) = (Get(q), found) for every query, (0,false) when not found.", _NOTE, "5.C14"),
 "C18": ("model_checking", "small-scope exhaustive input enumeration; Stat invariants checked on every trie and instance",
         _SS + "Oracle: KeyCnt = |retained|, level entries total = inner + leaf, monotone, last level = totals, empty (0,0), single key (1,1), loaded Stat deep-equals fresh Stat.", _NOTE, "5.C18"),
 "C19": ("model_checking", "small-scope exhaustive input enumeration incl. short-table scaffolds of every reachable size; rendering parsed and compared with the reference",
         _SS + "Oracle: String() does not panic; #id tokens are exactly {0..NodeCnt-1} each once; =value suffixes top to bottom equal the retained values in key order; loaded instance renders identically.", _NOTE, "5.C19"),
 "C04": ("model_checking", "small-scope exhaustive enumeration of complete tries x start/end strings x inclusivities x callback stop points; explicit-state exploration of iterator call sequences incl. all interleavings of two iterators",
         _SS + "Complete tries: NewIter driven as a state machine (next() to exhaustion + 3 calls) and ScanFrom from every start of the query universe, callback returning false after every j, ScanFromTo over the neighbourhood set squared x 4 inclusivity combinations, every interleaving of the next() calls of two iterators (result lists <= 3); encoders I32, String16, variable/zero-width, none. Incomplete tries (all 12 combinations, with and without values): ScanFrom/ScanFromTo/NewIter must panic before yielding anything. Oracle: slice of the sorted retained list with Encode(v) bytes.", _NOTE, "5.C04"),
 "C08": ("model_checking", "exhaustive enumeration of key sequences (ordered tuples with repetition), injected order violations at every index, and every run length up to the 16-bit step boundary",
         "Every key sequence of length <= 4/5 over a 21-string universe x 4 prefix modes x {values,nil}; valid lists of 8..200 keys with one violation (duplicate, swap, key followed by its prefix, 0x7f/0x80 inversion) at every index and two at every index pair; run lengths 0..1024 and around 16 KiB / 32 KiB / 64 KiB (every r in [0,33000] in thorough). Oracle: strictly ascending <=> accepted; rejected => ErrKeyOutOfOrder and nil trie; accepted => every own key found with its value; beyond 16 KiB refusal is tolerated, silent loss is not.",
         "Bounded sequence length and alphabet; documented key limit taken as 16 KiB (README).", "5.C08"),
 "C12": ("model_checking", "small-scope exhaustive enumeration of record sets x offset patterns x all block sizes x query universe against a map reference",
         "All subsets of the 21-string universe up to 4/6 records plus regular large sets; Get with strictly increasing offsets in 4 gap patterns, RangeGet with block offsets for every block size 1..min(64,n); every query of the query universe and per-key mutations; key-verifying reader. Oracle: (record,true) for indexed keys, (\"\",false) otherwise.",
         "Bounded record-set size and alphabet; the reader is a harness-side map.", "5.C12"),
 "C16": ("model_checking", "exhaustive enumeration of index sets over two boundary-rich universes x element kinds, all accessors and all marshal round trips against map[int32]T",
         "All 65536 subsets of a 16-position index universe (word boundaries, empty words) and all subsets of a 14-position universe reaching 2^20-1; U16/U32/U64/I16/I32/I64/struct; lane-alphabet values, exhaustive 2^16 values for the 16-bit kinds; every index of the span probed through typed Get, generic Get and GetBytes, fresh and after proto round trips typed<->generic; every invalid index sequence of length <= 4 and element counts off by 1..3 => dedicated error and nil array.",
         "(zero,false) claimed within the bitmap span only.", "5.C16"),
 "C17": ("model_checking", "small-scope exhaustive enumeration of key sets and adversarial parameterised families, each paired with every prefix-lifted copy; size oracle",
         "Default options, nil values: all subsets up to the tier's size, all scaffolds, caterpillars / long-step trees / fan-out-11 / all-distinct-bitmap families / testkeys sets; for every K and every prefix P (1..16000 bytes of each symbol) the pair (K, P+K). Oracle: len(Marshal) <= 8n+256, |len(K)-len(P+K)| <= 24.",
         "Bounded families (n <= 10^5 only via the archived sets); tolerance 24 bytes justified in DESIGN.md 5.C17.", "5.C17"),
 "C05": ("model_checking", "small-scope exhaustive enumeration (answer preservation, byte stability) plus explicit-state exploration of load/reset histories with a differential oracle",
         _SS + "(a) fresh vs loaded instances answer every query of every kind identically (result-to-result); (b) same input built repeatedly gives identical bytes, len(Marshal) = proto.Size = len(proto.Marshal), re-marshal of a loaded trie reproduces the bytes; (c) every sequence of length <= 3 over {Unmarshal(s), proto.Unmarshal(s)} x 14 streams (current modes, big+short nodes, legacy 0.5.3/0.5.9/0.5.10, truncated, bad version) and Reset, from a never-used and a built instance: the observation vector equals that of a fresh instance that only loaded the last stream.", _NOTE, "5.C05"),
 "C06": ("model_checking", "independent legacy writer models bound to the code base by regenerating the 97 archived fixtures byte-for-byte on every run; model streams for exhaustively enumerated key sets are fed to the real loader",
         "Writer models of all historical layouts (three-array family in 7 byte-distinct flavours, 0.5.10/0.5.11 x nopref/innpref/allpref). Conformance: all 97 archived files regenerated byte-for-byte (traces_validated_against_impl). Exploration: all key sets of K(U21,4/5), scaffolds over K(U21,2), step lengths 0..300 / 512 / 1024 / 4096 / 65534 nibbles, empty / single-key sets, large regular sets x every layout x {Unmarshal, proto.Unmarshal}. Oracle: loads without error; Get/RangeGet/Search neighbours on every key, lookup relations on the query universe, KeyCnt = n; allpref: exact ordered-map answers and scans.",
         "The archived fixtures are the ground truth for the old writers; shapes no fixture witnesses follow the same writer algorithm.", "5.C06"),
 "C07": ("model_checking", "crash-point enumeration: every strict prefix of valid streams of every layout, and exhaustive enumeration of a version-string grammar, against a reference recogniser",
         "Every cut 0..len-1 of valid streams of every layout (current format in 8 modes with/without values, all legacy writer models; key sets <= 2 keys + two scaffolded sets) x prior instance state {new, built, loaded} x {Unmarshal, proto.Unmarshal}; every X.Y.Z (X<=2,Y<=9,Z<=20), every string of length <= 4/5 over {0,1,5,.,-,a}, released/successor/pre-release/malformed/non-terminated strings in front of current and legacy bodies. Oracle: prefix => error, no panic; incompatible => ErrIncompatible; afterwards every lookup reports not found and every scan yields nothing.",
         "Build-metadata versions excluded (semver-equal to compatible ones); Stat after a rejected load unspecified.", "5.C07"),
 "C20": ("model_checking", "small-scope exhaustive enumeration with overwrite-after-call fault patterns and a deep reachability digest",
         "Build: keys/values/Opt (81 pointer combinations on the smallest sets, both call forms) compared with deep copies, then caller memory overwritten: observations and deep digest unchanged. Load: every current-format stream of the space and every legacy layout's stream: buffer unmodified, then overwritten with 00/ff/address pattern: observations AND digest unchanged. Marshal: returned bytes overwritten: observations, digest and second Marshal unchanged.",
         "Retention through uintptr or closures would escape the digest.", "5.C20"),
 "C11": ("model_checking", "stateless schedule exploration of the real read paths under a cooperative scheduler (scheduling points injected before every statement at build time), complete over the interleaving lattice via a read-only-prefix state cache, plus preemption-bounded exploration without the cache; auxiliary free-running -race pass",
         "6 shared instances (fresh complete / filter+dedup / 257-bit root + short nodes / loaded current / loaded 0.5.10-allpref / loaded 0.5.9) x pairs (and triples) of 15 read operations with colliding arguments. Every state and transition of each two-thread interleaving lattice is covered while no step changes the watched shared memory (checked after every step); all schedules with <= 2/3 preemptions are additionally run without the cache on short scenarios; oracle: each call returns exactly its solo result; replay determinism enforced. The -race pass over the same bodies (2..32 goroutines) is reported separately.",
         "Statement-level scheduling granularity in packages trie/encode/array/index; dependencies run atomically within a step; Go memory model not modelled; memo fields of protobuf excluded from the watch.", "5.C11"),
})
NOT_YET = {}

def main():
    props = [json.loads(l)["id"] for l in open(os.path.join(os.path.dirname(__file__) or ".", "properties.jsonl"))]
    checks = []
    na = []
    for pid in props:
        if pid in CHECKS:
            cat, tech, text, note, ref = CHECKS[pid]
            checks.append({
                "property_id": pid,
                "quick_cmd": "./run_check.sh %s quick" % pid,
                "thorough_cmd": "./run_check.sh %s thorough" % pid,
                "evidence_file": "/verif/evidence/%s.json" % pid,
                "replay_cmd_template": "./run_check.sh replay {path}",
                "engine": "verif-harness",
                "level_claimed": {"category": cat, "text": text, "design_ref": "DESIGN.md " + ref},
                "level_note": note,
                "technique": tech,
            })
        else:
            na.append({"property_id": pid, "reason": NOT_YET.get(pid, "check not built yet (work in progress; see DESIGN.md section 11)")})
    m = {
        "version": 1,
        "setup_cmd": "./setup.sh",
        "hooks": {
            "guard": "verif",
            "enable": "no hooks are committed to /repo; C11's scheduling points are generated from the working tree at check time and applied with go build -overlay (tag verifsched is harness-side only)",
            "baseline_off_cmd": BASELINE_OFF,
            "source_commits": [],
            "add_only": True,
        },
        "engines": [
            {"name": "verif-harness", "path": "/verif/harness", "serves_properties": sorted(CHECKS),
             "kind_free_text": "hand-written Go explorer: bounded exhaustive input / history / crash-point / schedule enumeration against the real implementation, reference models in Go"},
        ],
        "checks": checks,
        "notes": "All checks go through run_check.sh which rebuilds the harness against /repo's working tree (go.mod replace). Known findings: /verif/known_findings.json.",
        "not_applicable": na,
    }
    out = os.path.join(os.path.dirname(__file__) or ".", "MANIFEST.json")
    json.dump(m, open(out, "w"), indent=1)
    open(out, "a").write("\n")
    try:
        import jsonschema
        jsonschema.validate(m, json.load(open("/root/.vp/MANIFEST.schema.json")))
        print("MANIFEST.json valid:", len(checks), "checks,", len(na), "not applicable")
    except ImportError:
        print("jsonschema not available; MANIFEST.json written unvalidated")

if __name__ == "__main__":
    main()
