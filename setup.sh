#!/bin/bash
# Run once after a fresh restore, offline: builds the harness (warms the Go build
# cache, also for the -race and instrumented builds of C11) and runs the
# harness' own self-tests (explorer finds a seeded lost update and counts the
# interleaving lattice; memory watch sees writes; legacy writer models regenerate
# the 97 archived fixtures).
set -eu
cd "$(dirname "$0")"
export GOFLAGS=-mod=mod GOPROXY=off GOSUMDB=off GOTOOLCHAIN=local
./run_check.sh build
(cd harness && go test -count=1 ./internal/... 2>&1 | tail -8)
# warm the race-detector build cache (used by C11's auxiliary pass)
(cd harness && go build -race -o bin/verif_race_warm ./cmd/verif && rm -f bin/verif_race_warm) || true
echo "setup ok"
