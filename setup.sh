#!/bin/bash
# Run once after a fresh restore, offline: builds the harness (warms the Go build cache).
set -eu
cd "$(dirname "$0")"
export GOFLAGS=-mod=mod GOPROXY=off GOSUMDB=off GOTOOLCHAIN=local
./run_check.sh build
echo "setup ok"
