#!/usr/bin/env python3
"""Validates MANIFEST.json and every evidence file against the schemas in /root/.vp."""
import json, sys, glob, os
import jsonschema
root = os.path.dirname(os.path.abspath(__file__))
ok = True
m = json.load(open(os.path.join(root, "MANIFEST.json")))
jsonschema.validate(m, json.load(open("/root/.vp/MANIFEST.schema.json")))
schema = json.load(open("/root/.vp/EVIDENCE.schema.json"))
ids = [c["property_id"] for c in m["checks"]]
for pid in ids:
    p = os.path.join(root, "evidence", pid + ".json")
    if not os.path.exists(p):
        print("MISSING", p); ok = False; continue
    e = json.load(open(p))
    try:
        jsonschema.validate(e, schema)
    except jsonschema.ValidationError as ex:
        print("INVALID", p, ex.message[:200]); ok = False; continue
    c = e["coverage"]
    cat = [x for x in m["checks"] if x["property_id"] == pid][0]["level_claimed"]["category"]
    if e["level"] != cat:
        print("LEVEL MISMATCH", pid, e["level"], cat); ok = False
    print("%s ok tier=%s seed=%s evals=%s states=%s nontriv=%s trans=%s exhaustive=%s wall=%ss viol=%s" % (
        pid, e["tier"], e["seed"], c.get("evaluations"), c.get("states"), c.get("distinct_nontrivial"), c.get("transitions"), c.get("exhaustive"), e["wall_s"], e.get("violations")))
props = [json.loads(l)["id"] for l in open(os.path.join(root, "properties.jsonl"))]
na = [x["property_id"] for x in m.get("not_applicable", [])]
for p in props:
    if p not in ids and p not in na:
        print("UNACCOUNTED", p); ok = False
sys.exit(0 if ok else 1)
