#!/bin/bash
# Runs every quick check under several seeds (each seed selects another alphabet;
# every run is still exhaustive).  Prints one line per run; exit 1 if any run
# exits non-zero.
cd "$(dirname "$0")"
rc=0
for s in ${SEEDS:-0 1 2 3 4 5 6 7}; do
  for c in ${CHECKS:-$(python3 -c "import json;print(' '.join(x['property_id'] for x in json.load(open('MANIFEST.json'))['checks']))")}; do
    out=$(VERIF_SEED=$s ./run_check.sh $c ${TIER:-quick} 2>&1); r=$?
    echo "seed=$s $c rc=$r $(echo "$out" | grep -E '^C[0-9]+ |VIOLATION|KNOWN|INFRA' | tr '\n' ' ')"
    [ $r -ne 0 ] && rc=1
  done
done
exit $rc
