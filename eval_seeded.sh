#!/bin/bash
# eval_seeded.sh <seeded-id> [check...] : applies seeded/<id>/patch.diff in a fresh scratch
# worktree of /repo, runs the given quick checks (default: the property named in meta.json)
# against it, removes the worktree.  /repo is never touched.
ID="$1"; shift
cd "$(dirname "$0")"
D="seeded/$ID"
CHECKS="$@"
[ -z "$CHECKS" ] && CHECKS=$(python3 -c "import json;print(json.load(open('$D/meta.json'))['property'])")
W=/tmp/mut/eval-$ID-$$
git -C /repo worktree add -q --detach "$W" HEAD || exit 2
(cd "$W" && git apply "$OLDPWD/$D/patch.diff") || { echo "$ID: patch does not apply"; git -C /repo worktree remove --force "$W"; exit 2; }
for c in $CHECKS; do
  out=$(VERIF_REPO="$W" VERIF_OUT_DIR="$W/_out" ./run_check.sh $c ${TIER:-quick} 2>&1); r=$?
  echo "$ID $c rc=$r $(echo "$out" | grep -E '^violation|INFRA' | head -2 | cut -c1-260 | tr '\n' ' ')"
done
git -C /repo worktree remove --force "$W"
