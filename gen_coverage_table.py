#!/usr/bin/env python3
"""gen_coverage_table.py : rewrites the block between <!-- COVERAGE-TABLE --> markers in DESIGN.md
from the evidence files (what the last run of every check actually covered)."""
import json, glob, re
rows = []
for f in sorted(glob.glob('/verif/evidence/C*.json')):
    d = json.load(open(f)); c = d['coverage']
    def g(k): return c.get(k, d.get(k))
    fmt = lambda n: ('%.2f G' % (n/1e9)) if n >= 1e9 else ('%.2f M' % (n/1e6)) if n >= 1e6 else ('%.1f k' % (n/1e3)) if n >= 1e3 else str(n)
    phases = ', '.join('%s (%s)' % (p['phase'], p['units']) for p in (c.get('phases') or []))
    rows.append('| %s | %s | %s | %s / %s / %s | %s | %s | %s | %s |' % (
        d['property_id'], d.get('tier', c.get('tier', '?')), d.get('seed', c.get('seed', '?')),
        fmt(g('evaluations')), fmt(g('states')), fmt(g('transitions')),
        g('exhaustive'), c.get('cpu_s', '?'), c.get('peak_heap_mib', '?'), phases))
hdr = ('| check | tier | seed | evaluations / distinct states / compared calls | exhaustive | CPU s | peak heap MiB | phases (units) |\n'
       '|---|---|---|---|---|---|---|---|\n')
block = '<!-- COVERAGE-TABLE -->\n' + hdr + '\n'.join(rows) + '\n<!-- /COVERAGE-TABLE -->'
s = open('/verif/DESIGN.md').read()
if '<!-- COVERAGE-TABLE -->' in s:
    s = re.sub(r'<!-- COVERAGE-TABLE -->.*?<!-- /COVERAGE-TABLE -->', lambda m: block, s, flags=re.S)
    open('/verif/DESIGN.md', 'w').write(s)
    print('table rewritten:', len(rows), 'rows')
else:
    print(block)
