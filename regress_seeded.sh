#!/bin/bash
# regress_seeded.sh : every seeded change must still be caught by the property's own quick check
# (and /repo itself must pass).  FILTER=<regex> restricts the ids.  Prints one line per change; exit 1 if one is no longer caught.
cd "$(dirname "$0")"
rc=0
for id in $(python3 -c "
import json
for l in open('seeded/detections.jsonl'):
    if l.strip(): print(json.loads(l)['id'])" | grep -E -- "${FILTER:-.}" || true); do
  # the check that is recorded as catching it (the property's own check where that is the case)
  prop=$(python3 -c "
import json
for l in open('seeded/detections.jsonl'):
    if l.strip():
        d=json.loads(l)
        if d['id']=='$id': print(d['caught_by'][0] if d['caught_by'] else '-')")
  if [ "$prop" = "-" ]; then echo "$id: recorded as outside every listed property (no check claims it)"; continue; fi
  out=$(./eval_seeded.sh $id $prop 2>&1)
  echo "$out" | cut -c1-200
  echo "$out" | grep -q "rc=1" || { echo "NOT CAUGHT: $id by $prop"; rc=1; }
done
exit $rc
