#!/bin/bash
# confirm_mutant.sh <seeded-dir> : independently confirms a seeded change in a fresh
# scratch worktree of /repo: patch applies, the demonstration passes without and
# fails with the change, the repository's own suite passes with the change.
# Writes <seeded-dir>/confirm.json and removes the worktree.
set -u
D="$(cd "$1" && pwd)"
ID="$(basename "$D")"
export GOFLAGS=-mod=mod GOPROXY=off GOSUMDB=off GOTOOLCHAIN=local
W=/tmp/mut/confirm-$ID
git -C /repo worktree remove --force "$W" 2>/dev/null
git -C /repo worktree add -q --detach "$W" HEAD || exit 2
cd "$W"
DEMO_CMD=$(python3 -c "import json;print(json.load(open('$D/meta.json'))['demo_cmd'])")
DEMO_DST=$(python3 -c "import json;print(json.load(open('$D/meta.json')).get('demo_dst',''))")
DEMO_SRC=$(ls "$D" | grep -E '^demo' | head -1)
if [ -z "$DEMO_DST" ]; then
  # destination from the demo's header comment: "copy to <path>"
  DEMO_DST=$(grep -oE 'copy (it |this file )?to [^ )"`]+' "$D/$DEMO_SRC" | head -1 | awk '{print $NF}')
fi
mkdir -p "$(dirname "$DEMO_DST")"
cp "$D/$DEMO_SRC" "$DEMO_DST"
without="fail"; ( eval "$DEMO_CMD" ) > "$D/confirm_without.log" 2>&1 && without="pass"
git apply "$D/patch.diff" || { echo "patch does not apply"; exit 2; }
with="fail"; ( eval "$DEMO_CMD" ) > "$D/confirm_with.log" 2>&1 && with="pass"
rm -f "$DEMO_DST"
suite="fail"; go test -vet=off -count=1 ./... > "$D/confirm_suite.log" 2>&1 && suite="pass"
python3 - <<PY
import json
json.dump({"demo_without_change":"$without","demo_with_change":"$with","suite_with_change":"$suite","demo_dst":"$DEMO_DST","confirmed":("$without"=="pass" and "$with"=="fail" and "$suite"=="pass")}, open("$D/confirm.json","w"), indent=1)
PY
cd /; git -C /repo worktree remove --force "$W"
cat "$D/confirm.json"
