package main

import (
	"encoding/json"
	"flag"
	"fmt"
	"io/ioutil"
	"os"
	"runtime/pprof"
	"time"

	"verif/internal/c11"
	"verif/internal/instr"
	"verif/internal/sched"
)

// c11main implements the sub-commands that run inside the instrumented or the
// race-detector build of the harness (started by the C11 orchestrator).
func c11main(cmd string, args []string) {
	fs := flag.NewFlagSet(cmd, flag.ExitOnError)
	shard := fs.Int("shard", 0, "shard index")
	of := fs.Int("of", 1, "number of shards")
	seed := fs.Int64("seed", 0, "seed")
	tier := fs.String("tier", "quick", "tier")
	budget := fs.Int("budget", 60, "budget in seconds")
	pb := fs.Int("pb", 2, "preemption bound of the uncached exploration")
	file := fs.String("file", "", "violation file (c11replay)")
	repo := fs.String("repo", "/repo", "repository root (instrument)")
	out := fs.String("out", "", "output directory (instrument)")
	fs.Parse(args)
	thorough := *tier == "thorough"
	switch cmd {
	case "instrument":
		res, err := instr.Generate(*repo, *out)
		if err != nil {
			fmt.Fprintln(os.Stderr, err)
			os.Exit(2)
		}
		c11.Emit(res)
	case "c11worker":
		if pf := os.Getenv("VERIF_CPUPROFILE"); pf != "" {
			f, _ := os.Create(pf)
			pprof.StartCPUProfile(f)
			defer pprof.StopCPUProfile()
		}
		c11.Emit(c11.RunWorker(*shard, *of, *seed, thorough, time.Duration(*budget)*time.Second, *pb))
	case "c11race":
		c11.Emit(c11.RunRace(*seed, thorough, time.Duration(*budget)*time.Second))
	case "c11replay":
		b, err := ioutil.ReadFile(*file)
		if err != nil {
			fmt.Fprintln(os.Stderr, err)
			os.Exit(2)
		}
		var v sched.Violation
		if err := json.Unmarshal(b, &v); err != nil {
			fmt.Fprintln(os.Stderr, err)
			os.Exit(2)
		}
		got, solo, err := c11.ReplaySchedule(*seed, thorough, &v)
		c11.Emit(map[string]interface{}{"results": got, "solo": solo, "error": fmt.Sprint(err)})
	}
}
