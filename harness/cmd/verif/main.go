// Command verif runs the bounded exhaustive checks for the slim properties.
//
//	verif check <ID> [--tier quick|thorough]
//	verif replay <file>
package main

import (
	"encoding/json"
	"fmt"
	"io/ioutil"
	"os"
	"runtime/debug"
	"runtime/pprof"
	"sort"
	"strconv"

	"verif/internal/checks"
	"verif/internal/h"
)

func usage() {
	fmt.Fprintln(os.Stderr, "usage: verif check <ID> [--tier quick|thorough] | verif replay <file> | verif list")
	os.Exit(2)
}

func main() {
	if len(os.Args) < 2 {
		usage()
	}
	switch os.Args[1] {
	case "list":
		var ids []string
		for id := range checks.Registry {
			ids = append(ids, id)
		}
		sort.Strings(ids)
		for _, id := range ids {
			fmt.Println(id)
		}
	case "check":
		if len(os.Args) < 3 {
			usage()
		}
		id := os.Args[2]
		tier := os.Getenv("VERIF_TIER")
		for i := 3; i < len(os.Args); i++ {
			if os.Args[i] == "--tier" && i+1 < len(os.Args) {
				tier = os.Args[i+1]
				i++
			}
		}
		if tier == "" {
			tier = "quick"
		}
		if tier != "quick" && tier != "thorough" {
			usage()
		}
		seed := int64(0)
		if s := os.Getenv("VERIF_SEED"); s != "" {
			if x, err := strconv.ParseInt(s, 10, 64); err == nil {
				seed = x
			}
		}
		c, ok := checks.Registry[id]
		if !ok {
			fmt.Fprintln(os.Stderr, "unknown check", id)
			os.Exit(2)
		}
		budget := c.QuickBudget
		if tier == "thorough" {
			budget = c.ThoroughBudget
		}
		if pf := os.Getenv("VERIF_CPUPROFILE"); pf != "" {
			f, _ := os.Create(pf)
			pprof.StartCPUProfile(f)
			defer pprof.StopCPUProfile()
		}
		debug.SetGCPercent(400)
		r := h.NewRun(id, tier, seed, c.Level, budget)
		c.Run(r)
		code := r.Finish()
		pprof.StopCPUProfile()
		os.Exit(code)
	case "replay":
		if len(os.Args) < 3 {
			usage()
		}
		b, err := ioutil.ReadFile(os.Args[2])
		if err != nil {
			fmt.Fprintln(os.Stderr, err)
			os.Exit(2)
		}
		var v struct {
			Prop string          `json:"property"`
			Sig  string          `json:"signature"`
			Msg  string          `json:"message"`
			Kind string          `json:"kind"`
			Case json.RawMessage `json:"case"`
		}
		if err := json.Unmarshal(b, &v); err != nil {
			fmt.Fprintln(os.Stderr, err)
			os.Exit(2)
		}
		rp, ok := checks.Replayers[v.Kind]
		if !ok {
			fmt.Fprintf(os.Stderr, "no replayer for kind %q (recorded message: %s)\n", v.Kind, v.Msg)
			os.Exit(2)
		}
		// replay twice: the same case must give the same verdict
		v1 := rp(v.Prop, v.Case)
		v2 := rp(v.Prop, v.Case)
		if (v1 == nil) != (v2 == nil) {
			fmt.Fprintln(os.Stderr, "replay is not deterministic")
			os.Exit(2)
		}
		if v1 == nil {
			fmt.Printf("replay of %s: property %s holds on this case now (recorded: %s)\n", os.Args[2], v.Prop, v.Msg)
			os.Exit(0)
		}
		fmt.Printf("replay: %s\n", v1.Msg)
		fmt.Printf("VIOLATION property=%s replay=%s\n", v.Prop, os.Args[2])
		os.Exit(1)
	case "c11worker", "c11race", "c11replay", "instrument":
		c11main(os.Args[1], os.Args[2:])
	default:
		usage()
	}
}
