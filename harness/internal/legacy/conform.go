package legacy

import (
	"bytes"
	"encoding/binary"
	"fmt"
	"io/ioutil"
	"path/filepath"
	"sort"
	"strings"

	"github.com/openacid/testkeys"
)

// ConformResult reports how the writer models relate to the archived fixtures.
type ConformResult struct {
	Files    int
	Exact    int
	Mismatch []string
}

func le32(i int) []byte {
	b := make([]byte, 4)
	binary.LittleEndian.PutUint32(b, uint32(i))
	return b
}

// Conform regenerates every archived fixture of dir from the testkeys key sets
// with values 0..n-1 and compares byte-for-byte.  onlySmall restricts it to key
// sets of at most maxKeys keys (0 = all).
func Conform(dir string, maxKeys int) (*ConformResult, error) {
	files, err := ioutil.ReadDir(dir)
	if err != nil {
		return nil, err
	}
	res := &ConformResult{}
	var names []string
	for _, fi := range files {
		if strings.HasPrefix(fi.Name(), "slimtrie-data-") {
			names = append(names, fi.Name())
		}
	}
	sort.Strings(names)
	keyCache := map[string][]string{}
	for _, name := range names {
		parts := strings.Split(name, "-")
		var set, opt, ver string
		switch len(parts) {
		case 4:
			set, ver = parts[2], parts[3]
		case 5:
			set, opt, ver = parts[2], parts[3], parts[4]
		default:
			continue
		}
		keys, ok := keyCache[set]
		if !ok {
			var perr interface{}
			func() {
				defer func() { perr = recover() }()
				keys = testkeys.Load(set)
			}()
			if perr != nil {
				return nil, fmt.Errorf("testkeys set %q for fixture %s cannot be loaded: %v", set, name, perr)
			}
			keyCache[set] = keys
		}
		if maxKeys > 0 && len(keys) > maxKeys {
			continue
		}
		want, err := ioutil.ReadFile(filepath.Join(dir, name))
		if err != nil {
			return nil, err
		}
		var got []byte
		if opt == "" {
			vals := make([]uint32, len(keys))
			for i := range vals {
				vals[i] = uint32(i)
			}
			got, _ = WriteOld(keys, vals, FlavourOf(ver))
		} else {
			w, ok := Flavours0510[opt]
			if !ok {
				return nil, fmt.Errorf("unknown option flavour in fixture name %s", name)
			}
			vals := make([][]byte, len(keys))
			for i := range vals {
				vals[i] = le32(i)
			}
			got = w.Stream(ver, keys, vals)
		}
		res.Files++
		if bytes.Equal(got, want) {
			res.Exact++
		} else {
			res.Mismatch = append(res.Mismatch, name)
		}
	}
	return res, nil
}
