package legacy

import "testing"

func TestConform(t *testing.T) {
	r, err := Conform("/repo/trie/testdata", 0)
	if err != nil {
		t.Fatal(err)
	}
	t.Logf("files=%d exact=%d mismatch=%v", r.Files, r.Exact, r.Mismatch)
	if r.Exact != r.Files || r.Files != 97 {
		t.Fatal("conformance failed")
	}
}
