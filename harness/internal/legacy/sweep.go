package legacy

import (
	"fmt"
	"sort"
)

// OldIDSweep returns key lists, chosen greedily from the prefixes of a few
// regular base lists, such that the pre-0.5.10 trie has at least 64 nodes and
// each of: node count, highest inner-node id, highest id with a step, highest
// leaf id takes every residue modulo 64 (the old arrays are bitmap-indexed by
// node id, so these decide the word and bit each bitmap ends on).  covered
// reports how many of the 4 x 64 (kind, residue) pairs were reached.
func OldIDSweep() (lists [][]string, covered int) {
	bases := SweepBases()
	seen := map[[2]int32]bool{}
	for _, b := range bases {
		for n := 30; n <= len(b); n++ {
			keys := append([]string{}, b[:n]...)
			sort.Strings(keys)
			u := keys[:0]
			for i, k := range keys {
				if i == 0 || k != keys[i-1] {
					u = append(u, k)
				}
			}
			keys = u
			c, in, st, lf := OldShape(keys)
			if c < 64 {
				continue
			}
			fresh := false
			for kind, v := range []int32{c, in, st, lf} {
				if v < 0 {
					continue
				}
				p := [2]int32{int32(kind), v % 64}
				if !seen[p] {
					seen[p] = true
					fresh = true
				}
			}
			if fresh {
				lists = append(lists, keys)
			}
		}
	}
	return lists, len(seen)
}

// SweepBases returns the regular base lists (in insertion order) whose sorted
// prefixes are the candidates of the boundary sweeps.
func SweepBases() [][]string {
	var bases [][]string
	{
		var b []string
		for i := 0; i < 420; i++ {
			b = append(b, fmt.Sprintf("%04d", i*7))
		}
		sort.Strings(b)
		bases = append(bases, b)
	}
	{
		var b []string
		for i := 0; i < 420; i++ {
			j := (i * 37) % 421
			b = append(b, fmt.Sprintf("k%03x/%d", j*5, j%3))
		}
		bases = append(bases, b) // insertion order; every prefix is sorted below
	}
	{
		var b []string
		for i := 0; i < 300; i++ {
			j := (i * 101) % 307
			k := []byte{byte(j), byte(j * 7)}
			if j%4 == 0 {
				k = append(k, 0xff, byte(j))
			}
			b = append(b, string(k))
		}
		bases = append(bases, b)
	}
	{
		var b []string
		for i := 0; i < 300; i++ {
			j := (i * 53) % 311
			b = append(b, fmt.Sprintf("%c%c%02x", 'a'+j%5, 'p'+j%7, j))
			if j%6 == 1 {
				b = append(b, fmt.Sprintf("%c%c", 'a'+j%5, 'p'+j%7))
			}
		}
		bases = append(bases, b)
	}
	return bases
}
