// Package legacy contains independent writer models of the historical on-disk
// formats of SlimTrie (0.5.0 - 0.5.11).  They never call slim/trie's builder or
// the generated marshalling code of slim/array or slim/trie; they are bound to
// reality by Conform(), which regenerates the 97 archived fixture files
// byte-for-byte.
package legacy

import (
	"encoding/binary"
	"math/bits"
)

// ---------- tiny protobuf writer ----------
type pb struct{ b []byte }

func (p *pb) uv(x uint64) {
	for x >= 0x80 {
		p.b = append(p.b, byte(x)|0x80)
		x >>= 7
	}
	p.b = append(p.b, byte(x))
}

func (p *pb) varint(f int, v uint64) {
	if v == 0 {
		return
	}
	p.uv(uint64(f)<<3 | 0)
	p.uv(v)
}

func (p *pb) bytes(f int, v []byte) {
	if len(v) == 0 {
		return
	}
	p.uv(uint64(f)<<3 | 2)
	p.uv(uint64(len(v)))
	p.b = append(p.b, v...)
}

func (p *pb) msg(f int, v []byte, present bool) {
	if !present {
		return
	}
	p.uv(uint64(f)<<3 | 2)
	p.uv(uint64(len(v)))
	p.b = append(p.b, v...)
}

func packedU64(xs []uint64) []byte {
	p := &pb{}
	for _, x := range xs {
		p.uv(x)
	}
	return p.b
}

func packedI32(xs []int32) []byte {
	p := &pb{}
	for _, x := range xs {
		p.uv(uint64(int64(x)))
	}
	return p.b
}

// Section frames a protobuf body with the 32-byte versioned header.
func Section(ver string, body []byte) []byte {
	h := make([]byte, 32)
	copy(h, ver)
	binary.LittleEndian.PutUint64(h[16:], 32)
	binary.LittleEndian.PutUint64(h[24:], uint64(len(body)))
	return append(h, body...)
}

// ---------- bitmaps ----------

func bmOf(idx []int32, capa int32) []uint64 {
	n := capa
	if len(idx) > 0 && idx[len(idx)-1]+1 > n {
		n = idx[len(idx)-1] + 1
	}
	w := make([]uint64, (n+63)>>6)
	for _, i := range idx {
		w[i>>6] |= 1 << uint(i&63)
	}
	return w
}

func rank64(w []uint64, trailing bool) []int32 {
	var r []int32
	c := int32(0)
	for _, x := range w {
		r = append(r, c)
		c += int32(bits.OnesCount64(x))
	}
	if trailing {
		r = append(r, c)
	}
	return r
}

func rank128(w []uint64) []int32 {
	var r []int32
	c := int32(0)
	for i := 0; i < len(w); i += 2 {
		r = append(r, c)
		c += int32(bits.OnesCount64(w[i]))
		if i+1 < len(w) {
			c += int32(bits.OnesCount64(w[i+1]))
		}
	}
	if len(w)&1 == 0 {
		r = append(r, c)
	}
	return r
}

// old (0.5.10) select index: WORD index of every 32nd one
func sel32old(w []uint64) []int32 {
	var s []int32
	ith := -1
	for i := 0; i < len(w)*64; i++ {
		if w[i>>6]&(1<<uint(i&63)) != 0 {
			ith++
			if ith&31 == 0 {
				s = append(s, int32(i>>6))
			}
		}
	}
	return s
}

type bm struct {
	words []uint64
	rank  []int32
	sel   []int32
}

func (b *bm) marshal() []byte {
	p := &pb{}
	p.bytes(20, packedU64(b.words))
	p.bytes(30, packedI32(b.rank))
	p.bytes(40, packedI32(b.sel))
	return p.b
}
