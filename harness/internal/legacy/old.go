package legacy

import (
	"encoding/binary"
	"math/bits"
)

// ---- pre-0.5.10 three-array trie model ----

type oldTrie struct {
	nodeCnt  int32
	childIdx []int32
	childBM  []uint16
	childOff []int32 // first child id
	stepIdx  []int32
	stepVal  []uint16
	leafIdx  []int32
	leafVal  []int32 // index of key
	// leaf steps for 0.5.0
	leafStepIdx []int32
	leafStepVal []uint16
}

func nib(k string, i int32) int32 {
	b := k[i>>1]
	if i&1 == 0 {
		return int32(b >> 4)
	}
	return int32(b & 0xf)
}

func commonPrefixNibbles(a, b string, from int32) int32 {
	la, lb := int32(len(a)*2), int32(len(b)*2)
	i := from
	for i < la && i < lb && nib(a, i) == nib(b, i) {
		i++
	}
	return i
}

type subset struct{ s, e, from int32 }

func buildOld(keys []string) *oldTrie {
	t := &oldTrie{}
	if len(keys) == 0 {
		return t
	}
	queue := []subset{{0, int32(len(keys)), 0}}
	for i := 0; i < len(queue); i++ {
		nid := int32(i)
		o := queue[i]
		s, e := o.s, o.e
		if e-s == 1 {
			t.leafIdx = append(t.leafIdx, nid)
			t.leafVal = append(t.leafVal, s)
			// leaf step (0.5.0): remaining words + 1
			rem := int32(len(keys[s])*2) - o.from
			if rem+1 > 1 {
				t.leafStepIdx = append(t.leafStepIdx, nid)
				t.leafStepVal = append(t.leafStepVal, uint16(rem+1))
			}
			continue
		}
		prefI := commonPrefixNibbles(keys[s], keys[e-1], o.from)
		if int32(len(keys[s])*2) == prefI {
			t.leafIdx = append(t.leafIdx, nid)
			t.leafVal = append(t.leafVal, s)
			s++
		}
		var bmv uint16
		first := int32(len(queue))
		for j := s; j < e; {
			l := nib(keys[j], prefI)
			k := j + 1
			for k < e && nib(keys[k], prefI) == l {
				k++
			}
			bmv |= 1 << uint(l)
			queue = append(queue, subset{j, k, prefI + 1})
			j = k
		}
		t.childIdx = append(t.childIdx, nid)
		t.childBM = append(t.childBM, bmv)
		t.childOff = append(t.childOff, first)
		step := prefI - o.from + 1
		if step > 1 {
			t.stepIdx = append(t.stepIdx, nid)
			t.stepVal = append(t.stepVal, uint16(step))
		}
	}
	t.nodeCnt = int32(len(queue))
	return t
}

// MaxOldStep reports the largest step (in nibbles, incl. the label word) the
// old format would have to store for keys; the old writers could encode a key
// set only if it is <= 65535.
func MaxOldStep(keys []string) int32 {
	t := buildOldWide(keys)
	return t
}

// buildOldWide computes the maximal step without truncation.
func buildOldWide(keys []string) int32 {
	if len(keys) == 0 {
		return 0
	}
	max := int32(0)
	queue := []subset{{0, int32(len(keys)), 0}}
	for i := 0; i < len(queue); i++ {
		o := queue[i]
		s, e := o.s, o.e
		if e-s == 1 {
			continue
		}
		prefI := commonPrefixNibbles(keys[s], keys[e-1], o.from)
		if int32(len(keys[s])*2) == prefI {
			s++
		}
		for j := s; j < e; {
			l := nib(keys[j], prefI)
			k := j + 1
			for k < e && nib(keys[k], prefI) == l {
				k++
			}
			queue = append(queue, subset{j, k, prefI + 1})
			j = k
		}
		if st := prefI - o.from + 1; st > max {
			max = st
		}
	}
	return max
}

func bitmapOf(idx []int32, minWords int) ([]uint64, []int32) {
	n := 0
	if len(idx) > 0 {
		n = int(idx[len(idx)-1]>>6) + 1
	}
	if n < minWords {
		n = minWords
	}
	if n == 0 {
		return nil, nil
	}
	w := make([]uint64, n)
	for _, i := range idx {
		w[i>>6] |= 1 << uint(i&63)
	}
	offs := make([]int32, n)
	c := int32(0)
	for i := range w {
		if w[i] != 0 {
			offs[i] = c
		}
		c += int32(bits.OnesCount64(w[i]))
	}
	return w, offs
}

// array32 is the harness-side image of the Array32 message.
type array32 struct {
	cnt      int32
	bitmaps  []uint64
	offsets  []int32
	elts     []byte
	flags    uint32
	eltWidth int32
	bmElts   *bitsMsg
}

type bitsMsg struct {
	flags     uint32
	n         int32
	words     []uint64
	rankIndex []int32
}

func (a *array32) marshal() []byte {
	p := &pb{}
	p.varint(1, uint64(int64(a.cnt)))
	p.bytes(2, packedU64(a.bitmaps))
	p.bytes(3, packedI32(a.offsets))
	p.bytes(4, a.elts)
	p.varint(10, uint64(a.flags))
	p.varint(20, uint64(int64(a.eltWidth)))
	if a.bmElts != nil {
		q := &pb{}
		q.varint(1, uint64(a.bmElts.flags))
		q.varint(10, uint64(int64(a.bmElts.n)))
		q.bytes(20, packedU64(a.bmElts.words))
		q.bytes(30, packedI32(a.bmElts.rankIndex))
		p.msg(30, q.b, true)
	}
	return p.b
}

// Flavour describes one member of the three-array family.
type Flavour struct {
	Name       string
	Ver        string // header version string
	U32Child   bool
	LeafSteps  bool
	Extend     bool
	EmptyFlags bool // 0.5.4-0.5.6: empty children carry flags
}

// FlavourOf returns the flavour written by a released version 0.5.0 ... 0.5.9.
func FlavourOf(ver string) Flavour {
	switch ver {
	case "0.5.0":
		return Flavour{Name: ver, Ver: "1.0.0", U32Child: true, LeafSteps: true}
	case "0.5.1", "0.5.2", "0.5.3":
		return Flavour{Name: ver, Ver: "1.0.0", U32Child: true}
	case "0.5.4", "0.5.5", "0.5.6":
		return Flavour{Name: ver, Ver: "1.0.0", EmptyFlags: true}
	case "0.5.7":
		return Flavour{Name: ver, Ver: "1.0.0"}
	case "0.5.8":
		return Flavour{Name: ver, Ver: "0.5.8"}
	case "0.5.9":
		return Flavour{Name: ver, Ver: "0.5.9", Extend: true}
	}
	panic("unknown legacy version " + ver)
}

// OldVersions lists the released versions of the three-array family.
var OldVersions = []string{"0.5.0", "0.5.1", "0.5.2", "0.5.3", "0.5.4", "0.5.5", "0.5.6", "0.5.7", "0.5.8", "0.5.9"}

// WriteOld writes keys with 4-byte little-endian values (vals[i] for keys[i])
// in the given three-array flavour.  It returns the stream and the offsets of
// the two inner section boundaries.
func WriteOld(keys []string, vals []uint32, f Flavour) ([]byte, [2]int) {
	t := buildOld(keys)
	minWords := 0
	if f.Extend && t.nodeCnt > 0 {
		minWords = int((t.nodeCnt + 63) >> 6)
	}
	ch := &array32{}
	ch.cnt = int32(len(t.childIdx))
	ch.bitmaps, ch.offsets = bitmapOf(t.childIdx, minWords)
	if f.U32Child {
		for i := range t.childIdx {
			var b [4]byte
			binary.LittleEndian.PutUint32(b[:], uint32(t.childBM[i])|uint32(t.childOff[i])<<16)
			ch.elts = append(ch.elts, b[:]...)
		}
	} else {
		if len(t.childIdx) > 0 || f.EmptyFlags {
			ch.flags = 3
			ch.eltWidth = 16
			bmm := &bitsMsg{}
			nw := (len(t.childBM)*16 + 63) / 64
			bmm.words = make([]uint64, nw)
			maxBit := int32(-1)
			for i, b := range t.childBM {
				bmm.words[i/4] |= uint64(b) << uint((i%4)*16)
				if b != 0 {
					maxBit = int32(i*16) + int32(15-bits.LeadingZeros16(b))
				}
			}
			bmm.n = maxBit + 1
			c := int32(0)
			for i := 0; i < nw; i += 2 {
				bmm.rankIndex = append(bmm.rankIndex, c)
				c += int32(bits.OnesCount64(bmm.words[i]))
				if i+1 < nw {
					c += int32(bits.OnesCount64(bmm.words[i+1]))
				}
			}
			if nw&1 == 0 {
				bmm.rankIndex = append(bmm.rankIndex, c)
			}
			ch.bmElts = bmm
		}
	}
	st := &array32{}
	sidx, sval := t.stepIdx, t.stepVal
	if f.LeafSteps {
		type e struct {
			i int32
			v uint16
		}
		var all []e
		a, b := 0, 0
		for a < len(t.stepIdx) || b < len(t.leafStepIdx) {
			if b >= len(t.leafStepIdx) || (a < len(t.stepIdx) && t.stepIdx[a] < t.leafStepIdx[b]) {
				all = append(all, e{t.stepIdx[a], t.stepVal[a]})
				a++
			} else {
				all = append(all, e{t.leafStepIdx[b], t.leafStepVal[b]})
				b++
			}
		}
		sidx, sval = nil, nil
		for _, x := range all {
			sidx = append(sidx, x.i)
			sval = append(sval, x.v)
		}
	}
	st.cnt = int32(len(sidx))
	st.bitmaps, st.offsets = bitmapOf(sidx, minWords)
	for _, v := range sval {
		st.elts = append(st.elts, byte(v), byte(v>>8))
	}
	lv := &array32{}
	lv.cnt = int32(len(t.leafIdx))
	lv.bitmaps, lv.offsets = bitmapOf(t.leafIdx, minWords)
	for _, ki := range t.leafVal {
		var b [4]byte
		binary.LittleEndian.PutUint32(b[:], vals[ki])
		lv.elts = append(lv.elts, b[:]...)
	}
	var out []byte
	var bounds [2]int
	out = append(out, Section(f.Ver, ch.marshal())...)
	bounds[0] = len(out)
	out = append(out, Section(f.Ver, st.marshal())...)
	bounds[1] = len(out)
	out = append(out, Section(f.Ver, lv.marshal())...)
	return out, bounds
}

// OldNodeCount returns the number of nodes of the old trie for keys.
func OldNodeCount(keys []string) int32 { return buildOld(keys).nodeCnt }

// OldShape reports, for the pre-0.5.10 trie of keys, the node count and the
// highest node id that is an inner node, carries a step, and is a leaf (-1 if
// none): the positions whose residues modulo 64 decide which bitmap word (and
// which bit of it) the old arrays end on.
func OldShape(keys []string) (nodeCnt, lastInner, lastStep, lastLeaf int32) {
	t := buildOld(keys)
	last := func(l []int32) int32 {
		if len(l) == 0 {
			return -1
		}
		return l[len(l)-1]
	}
	return t.nodeCnt, last(t.childIdx), last(t.stepIdx), last(t.leafIdx)
}
