package legacy

import "testing"

func TestOldIDSweepCoversEveryResidue(t *testing.T) {
	l, c := OldIDSweep()
	if c != 256 {
		t.Fatalf("covered %d of 256 (kind, residue) pairs with %d lists", c, len(l))
	}
	t.Logf("%d lists", len(l))
}
