package legacy

import (
	"math/bits"
	"sort"
)

// ---------- 0.5.10 / 0.5.11 writer model ----------

func firstDiffBit(a, b string) int32 {
	la, lb := len(a), len(b)
	minl := la
	if lb < minl {
		minl = lb
	}
	for i := 0; i < minl; i++ {
		if a[i] != b[i] {
			return int32(i*8 + bits.LeadingZeros8(a[i]^b[i]))
		}
	}
	return int32(minl * 8)
}

// W0510 selects the option flavour of the 0.5.10 writer.
type W0510 struct {
	InnerPrefix, LeafPrefix bool
}

// Flavours0510 are the three archived option sets.
var Flavours0510 = map[string]W0510{
	"nopref":  {false, false},
	"innpref": {true, false},
	"allpref": {true, true},
}

func stepToPos(lens []int32) []int32 {
	ps := make([]int32, len(lens)+1)
	p := int32(0)
	for i, l := range lens {
		ps[i] = p
		p += l
	}
	ps[len(lens)] = p
	return ps
}

// control-byte prefix of key bits [from,to), from may be 4 mod 8 (then the byte is included whole)
func oldPrefix(key string, from, to int32) []byte {
	fromByte := from >> 3
	if to&7 == 0 {
		out := []byte{0}
		return append(out, key[fromByte:to>>3]...)
	}
	out := []byte{1}
	out = append(out, key[fromByte:(to>>3)+1]...)
	last := out[len(out)-1]
	keep := uint(to & 7)
	last &= byte(0xff) << (8 - keep)
	last |= 1 << (7 - keep)
	out[len(out)-1] = last
	return out
}

// Body builds the protobuf body of the Slim message as 0.5.10/0.5.11 wrote it.
// vals[i] is the encoded (fixed-size) value of keys[i]; nil => no values.
// An empty key list gives an empty body (the stream is the bare header).
func (o W0510) Body(keys []string, vals [][]byte) []byte {
	n := int32(len(keys))
	if n == 0 {
		return nil
	}
	diffs := make([]int32, n-1)
	for i := int32(0); i < n-1; i++ {
		diffs[i] = firstDiffBit(keys[i], keys[i+1])
	}
	isBig := true
	bigCnt := int32(0)
	nodeCnt := int32(0)
	var innerIdx []int32
	var innerBMs [][]int32
	var innerSizes []int32
	var prefIdx []int32
	var prefLens []int32
	var prefBytes []byte
	var steps []byte
	var leafOrder []int32
	var lpIdx, lpLens []int32
	var lpBytes []byte
	bmCnt := make([]map[uint64]int32, 11)
	for i := range bmCnt {
		bmCnt[i] = map[uint64]int32{}
	}
	type sub struct{ s, e, from int32 }
	queue := []sub{{0, n, 0}}
	for qi := 0; qi < len(queue); qi++ {
		q := queue[qi]
		s, e := q.s, q.e
		nodeCnt++
		if e-s == 1 {
			leafOrder = append(leafOrder, s)
			if o.LeafPrefix {
				tail := keys[s][q.from>>3:]
				if len(tail) > 0 {
					lpIdx = append(lpIdx, int32(len(leafOrder)-1))
					lpLens = append(lpLens, int32(len(tail)))
					lpBytes = append(lpBytes, tail...)
				}
			}
			continue
		}
		ws := int32(0x7fffffff)
		for _, d := range diffs[s : e-1] {
			if d < ws {
				ws = d
			}
		}
		var wordsize, bmsize int32
		if isBig {
			lim := ws&^7 + 8
			cnt := int32(1)
			for _, d := range diffs[s : e-1] {
				if d < lim {
					cnt++
				}
			}
			if cnt > 10 {
				ws &^= 7
				wordsize, bmsize = 8, 257
			} else {
				isBig = false
			}
		}
		if !isBig {
			ws &^= 3
			wordsize, bmsize = 4, 17
		}
		labelOf := func(k string) (int32, int32) { // (len, idx)
			if int32(len(k)*8) <= ws {
				return 0, 0
			}
			b := k[ws>>3]
			if wordsize == 8 {
				return 8, 1 + int32(b)
			}
			if ws&7 == 0 {
				return 4, 1 + int32(b>>4)
			}
			return 4, 1 + int32(b&0xf)
		}
		var idxs []int32
		first := true
		prev := int32(-1)
		innerOrd := int32(len(innerIdx))
		for j := s; j < e; {
			ll, li := labelOf(keys[j])
			k := j + 1
			for k < e {
				_, li2 := labelOf(keys[k])
				if li2 != li {
					break
				}
				k++
			}
			if first || li != prev {
				idxs = append(idxs, li)
			}
			first = false
			prev = li
			queue = append(queue, sub{j, k, ws + ll})
			j = k
		}
		innerIdx = append(innerIdx, int32(qi))
		innerBMs = append(innerBMs, idxs)
		innerSizes = append(innerSizes, bmsize)
		if isBig {
			bigCnt++
		} else if len(idxs) <= 10 {
			var b uint64
			for _, i := range idxs {
				b |= 1 << uint(i)
			}
			bmCnt[len(idxs)][b]++
		}
		if ws > q.from {
			prefIdx = append(prefIdx, innerOrd)
			if o.InnerPrefix {
				p := oldPrefix(keys[s], q.from, ws)
				prefLens = append(prefLens, int32(len(p)))
				prefBytes = append(prefBytes, p...)
			} else {
				st := (ws - q.from) >> 2
				steps = append(steps, byte(st>>8), byte(st))
			}
		}
	}
	// short table
	type ce struct {
		b uint64
		c int32
	}
	sorted := make([][]ce, 11)
	for nb := range bmCnt {
		for b, c := range bmCnt[nb] {
			sorted[nb] = append(sorted[nb], ce{b, c})
		}
		ss := sorted[nb]
		sort.Slice(ss, func(i, j int) bool {
			if ss[i].c == ss[j].c {
				return ss[i].b > ss[j].b
			}
			return ss[i].c > ss[j].c
		})
	}
	memIncr := func(sz int32) int32 {
		mem := (int32(1) << uint(sz)) * 64
		ith := make([]int32, sz+1)
		for sh := int32(0); sh < 1<<uint(sz); sh++ {
			nb := int32(bits.OnesCount64(uint64(sh)))
			if ith[nb] < int32(len(sorted[nb])) {
				mem -= (17 - sz) * sorted[nb][ith[nb]].c
				ith[nb]++
			}
		}
		return mem
	}
	shortSize := int32(0)
	minCost := memIncr(0)
	for sz := int32(1); sz <= 10; sz++ {
		if c := memIncr(sz); c < minCost {
			minCost = c
			shortSize = sz
		}
	}
	var shortTable []uint32
	mostUsed := map[uint64]int32{}
	for sh := int32(0); sh < 1<<uint(shortSize); sh++ {
		nb := bits.OnesCount64(uint64(sh))
		if len(sorted[nb]) > 0 {
			mostUsed[sorted[nb][0].b] = sh
			shortTable = append(shortTable, uint32(sorted[nb][0].b))
			sorted[nb] = sorted[nb][1:]
		} else {
			shortTable = append(shortTable, 0)
		}
	}
	var shortIdx []int32
	for i := bigCnt; i < int32(len(innerBMs)); i++ {
		var b uint64
		for _, x := range innerBMs[i] {
			b |= 1 << uint(x)
		}
		if sh, ok := mostUsed[b]; ok {
			var idx []int32
			for j := int32(0); j < 17; j++ {
				if sh>>uint(j)&1 == 1 {
					idx = append(idx, j)
				}
			}
			innerBMs[i] = idx
			innerSizes[i] = shortSize
			shortIdx = append(shortIdx, i)
		}
	}
	innerCnt := int32(len(innerIdx))
	leafCnt := int32(len(leafOrder))
	// serialize
	p := &pb{}
	p.varint(11, uint64(bigCnt))
	p.varint(12, uint64(int64(240*bigCnt)))
	p.varint(13, uint64(int64(shortSize-17)))
	p.varint(14, uint64(shortSize))
	p.varint(15, (uint64(1)<<uint(shortSize))-1)
	nt := &bm{words: bmOf(innerIdx, nodeCnt)}
	nt.rank = rank64(nt.words, false)
	p.msg(20, nt.marshal(), true)
	var all []int32
	base := int32(0)
	for i, b := range innerBMs {
		for _, x := range b {
			all = append(all, base+x)
		}
		base += innerSizes[i]
	}
	inn := &bm{words: bmOf(all, base)}
	inn.rank = rank128(inn.words)
	p.msg(30, inn.marshal(), true)
	sb := &bm{words: bmOf(shortIdx, innerCnt)}
	sb.rank = rank64(sb.words, false)
	p.msg(31, sb.marshal(), true)
	{
		q := &pb{}
		for _, x := range shortTable {
			q.uv(uint64(x))
		}
		p.bytes(32, q.b)
	}
	ip := &pb{}
	ip.varint(11, uint64(len(prefIdx)))
	if o.InnerPrefix {
		pos := &bm{words: bmOf(stepToPos(prefLens), 0)}
		pos.sel = sel32old(pos.words)
		pos.rank = rank64(pos.words, true)
		ip.msg(20, pos.marshal(), true)
		ip.bytes(30, prefBytes)
	} else {
		ip.varint(23, 2)
		ip.bytes(30, steps)
	}
	pres := &bm{words: bmOf(prefIdx, innerCnt)}
	pres.rank = rank128(pres.words)
	ip.msg(61, pres.marshal(), true)
	p.msg(38, ip.b, true)
	if o.LeafPrefix {
		lp := &pb{}
		pos := &bm{words: bmOf(stepToPos(lpLens), 0)}
		pos.sel = sel32old(pos.words)
		pos.rank = rank64(pos.words, true)
		lp.msg(20, pos.marshal(), true)
		lp.bytes(30, lpBytes)
		pr := &bm{words: bmOf(lpIdx, leafCnt)}
		pr.rank = rank64(pr.words, false)
		lp.msg(61, pr.marshal(), true)
		p.msg(58, lp.b, true)
	}
	if vals != nil {
		lv := &pb{}
		var bs []byte
		for _, li := range leafOrder {
			bs = append(bs, vals[li]...)
		}
		lv.bytes(30, bs)
		p.msg(60, lv.b, true)
	}
	return p.b
}

// Stream frames the body with header version ver ("0.5.10" or "0.5.11").
func (o W0510) Stream(ver string, keys []string, vals [][]byte) []byte {
	return Section(ver, o.Body(keys, vals))
}
