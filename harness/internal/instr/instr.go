// Package instr generates, from the CURRENT working tree of /repo, instrumented
// copies of the library packages in which a scheduling point precedes every
// statement, and writes a go build overlay.  Nothing in /repo is touched.
package instr

import (
	"encoding/json"
	"fmt"
	"go/ast"
	"go/parser"
	"go/printer"
	"go/token"
	"io/ioutil"
	"os"
	"path/filepath"
	"sort"
	"strconv"
	"strings"
)

// Result describes what was instrumented.
type Result struct {
	OverlayPath string
	Sites       map[string]int // package -> number of yield sites
	Globals     map[string][]string
	SyncShimmed []string
}

const shimImport = "github.com/openacid/slim/verifsync"

type ctx struct {
	site    int
	pkgBase int
}

func (c *ctx) yield() ast.Stmt {
	c.site++
	return &ast.ExprStmt{X: &ast.CallExpr{Fun: ast.NewIdent("verifYield"), Args: []ast.Expr{&ast.BasicLit{Kind: token.INT, Value: fmt.Sprint(c.pkgBase + c.site)}}}}
}

func (c *ctx) list(stmts []ast.Stmt, emptyLoop bool) []ast.Stmt {
	if len(stmts) == 0 {
		if emptyLoop {
			return []ast.Stmt{c.yield()}
		}
		return stmts
	}
	out := make([]ast.Stmt, 0, 2*len(stmts))
	for _, s := range stmts {
		out = append(out, c.yield())
		out = append(out, s)
	}
	return out
}

func (c *ctx) instrument(f *ast.File) {
	ast.Inspect(f, func(n ast.Node) bool {
		switch x := n.(type) {
		case *ast.FuncDecl:
			if x.Body != nil {
				x.Body.List = c.list(x.Body.List, false)
				markDone[x.Body] = true
			}
		case *ast.FuncLit:
			x.Body.List = c.list(x.Body.List, false)
			markDone[x.Body] = true
		case *ast.ForStmt:
			x.Body.List = c.list(x.Body.List, true)
			markDone[x.Body] = true
		case *ast.RangeStmt:
			x.Body.List = c.list(x.Body.List, true)
			markDone[x.Body] = true
		case *ast.SwitchStmt:
			markDone[x.Body] = true // its list holds case clauses, not statements
		case *ast.TypeSwitchStmt:
			markDone[x.Body] = true
		case *ast.SelectStmt:
			markDone[x.Body] = true
		case *ast.BlockStmt:
			if !markDone[x] {
				x.List = c.list(x.List, false)
				markDone[x] = true
			}
		case *ast.CaseClause:
			x.Body = c.list(x.Body, false)
		case *ast.CommClause:
			x.Body = c.list(x.Body, false)
		}
		return true
	})
}

var markDone = map[*ast.BlockStmt]bool{}

// Packages are the library packages that get scheduling points.
var Packages = []string{"trie", "encode", "array", "index"}

// Generate instruments repo/<pkg> for every package into outDir and writes overlay.json.
func Generate(repo, outDir string) (*Result, error) {
	res := &Result{Sites: map[string]int{}, Globals: map[string][]string{}}
	overlay := map[string]string{}
	fset := token.NewFileSet()
	usesShim := false
	for pi, pkg := range Packages {
		srcDir := filepath.Join(repo, pkg)
		files, _ := filepath.Glob(filepath.Join(srcDir, "*.go"))
		sort.Strings(files)
		pkgOut := filepath.Join(outDir, pkg)
		if err := os.MkdirAll(pkgOut, 0755); err != nil {
			return nil, err
		}
		c := &ctx{pkgBase: (pi + 1) * 100000}
		pkgName := ""
		var globals []string
		for _, f := range files {
			if strings.HasSuffix(f, "_test.go") {
				continue
			}
			af, err := parser.ParseFile(fset, f, nil, parser.ParseComments)
			if err != nil {
				return nil, fmt.Errorf("parse %s: %v", f, err)
			}
			if ignoredByBuildTag(af) {
				continue
			}
			pkgName = af.Name.Name
			if strings.HasSuffix(f, ".pb.go") {
				continue // generated marshalling code: left as is
			}
			for _, d := range af.Decls {
				if gd, ok := d.(*ast.GenDecl); ok && gd.Tok == token.VAR {
					for _, sp := range gd.Specs {
						for _, n := range sp.(*ast.ValueSpec).Names {
							if n.Name != "_" {
								globals = append(globals, n.Name)
							}
						}
					}
				}
			}
			// route sync through the cooperative shim
			for _, im := range af.Imports {
				p, _ := strconv.Unquote(im.Path.Value)
				if p == "sync" {
					im.Path.Value = strconv.Quote(shimImport)
					if im.Name == nil {
						im.Name = ast.NewIdent("sync")
					}
					usesShim = true
					res.SyncShimmed = append(res.SyncShimmed, f)
				}
			}
			c.instrument(af)
			out := filepath.Join(pkgOut, filepath.Base(f))
			w, err := os.Create(out)
			if err != nil {
				return nil, err
			}
			if err := printer.Fprint(w, fset, af); err != nil {
				w.Close()
				return nil, err
			}
			w.Close()
			overlay[f] = out
		}
		if pkgName == "" {
			continue
		}
		extra := filepath.Join(pkgOut, "zz_verif_hook.go")
		src := "package " + pkgName + "\n\n// VerifYieldHook is called at every scheduling point (set by the harness).\nvar VerifYieldHook func(site int32)\n\nfunc verifYield(site int32) {\n\tif h := VerifYieldHook; h != nil {\n\t\th(site)\n\t}\n}\n\n// VerifGlobals returns the addresses of all package-level variables.\nfunc VerifGlobals() []interface{} {\n\treturn []interface{}{"
		for _, g := range globals {
			src += "&" + g + ", "
		}
		src += "}\n}\n"
		if err := ioutil.WriteFile(extra, []byte(src), 0644); err != nil {
			return nil, err
		}
		overlay[filepath.Join(srcDir, "zz_verif_hook.go")] = extra
		res.Sites[pkg] = c.site
		res.Globals[pkg] = globals
	}
	// the sync shim is a virtual package of the replaced module
	shimDir := filepath.Join(outDir, "verifsync")
	os.MkdirAll(shimDir, 0755)
	shimFile := filepath.Join(shimDir, "sync.go")
	if err := ioutil.WriteFile(shimFile, []byte(shimSrc), 0644); err != nil {
		return nil, err
	}
	overlay[filepath.Join(repo, "verifsync", "sync.go")] = shimFile
	_ = usesShim
	b, _ := json.MarshalIndent(map[string]interface{}{"Replace": overlay}, "", " ")
	res.OverlayPath = filepath.Join(outDir, "overlay.json")
	if err := ioutil.WriteFile(res.OverlayPath, b, 0644); err != nil {
		return nil, err
	}
	return res, nil
}

func ignoredByBuildTag(f *ast.File) bool {
	for _, cg := range f.Comments {
		if cg.Pos() > f.Package {
			break
		}
		for _, c := range cg.List {
			t := c.Text
			if strings.HasPrefix(t, "//go:build") || strings.HasPrefix(t, "// +build") {
				if strings.Contains(t, "ignore") || strings.Contains(t, "debug") {
					return true
				}
			}
		}
	}
	return false
}

// shimSrc: cooperative replacements for the blocking primitives of package
// sync.  A blocked Lock yields to the scheduler instead of parking the OS
// thread, so a lock on a read path is explored, not dead-locked.
const shimSrc = `package verifsync

import realsync "sync"

// YieldHook is set by the harness; it is called while waiting.
var YieldHook func(site int32)

func wait() {
	if h := YieldHook; h != nil {
		h(-1)
	}
}

type Locker = realsync.Locker
type WaitGroup = realsync.WaitGroup
type Map = realsync.Map
type Cond = realsync.Cond

// Pool is a deterministic stand-in for sync.Pool: a LIFO free list without
// per-P caches and without clearing by the collector, so that what a pooled
// object is handed to next depends on the schedule only.  Every pool registers
// itself; ResetPools empties them all (the harness calls it before each
// execution, which keeps executions independent of one another).
type Pool struct {
	New        func() interface{}
	items      []interface{}
	registered bool
}

var pools []*Pool

func (p *Pool) Get() interface{} {
	wait()
	if n := len(p.items); n > 0 {
		x := p.items[n-1]
		p.items = p.items[:n-1]
		return x
	}
	if p.New != nil {
		return p.New()
	}
	return nil
}

func (p *Pool) Put(x interface{}) {
	wait()
	if !p.registered {
		p.registered = true
		pools = append(pools, p)
	}
	p.items = append(p.items, x)
}

// ResetPools empties every pool that was used.
func ResetPools() {
	for _, p := range pools {
		p.items = nil
	}
}

type Mutex struct {
	held bool
}

func (m *Mutex) Lock() {
	wait()
	for m.held {
		wait()
	}
	m.held = true
}

func (m *Mutex) Unlock() {
	if !m.held {
		panic("verifsync: unlock of unlocked mutex")
	}
	m.held = false
	wait()
}

type RWMutex struct {
	w bool
	r int
}

func (m *RWMutex) Lock() {
	wait()
	for m.w || m.r > 0 {
		wait()
	}
	m.w = true
}

func (m *RWMutex) Unlock() {
	m.w = false
	wait()
}

func (m *RWMutex) RLock() {
	wait()
	for m.w {
		wait()
	}
	m.r++
}

func (m *RWMutex) RUnlock() {
	m.r--
	wait()
}

func (m *RWMutex) RLocker() Locker { return (*rlocker)(m) }

type rlocker RWMutex

func (r *rlocker) Lock()   { (*RWMutex)(r).RLock() }
func (r *rlocker) Unlock() { (*RWMutex)(r).RUnlock() }

type Once struct {
	m    Mutex
	done bool
}

func (o *Once) Do(f func()) {
	wait()
	if o.done {
		return
	}
	o.m.Lock()
	defer o.m.Unlock()
	if !o.done {
		defer func() { o.done = true }()
		f()
	}
}
`
