// Package c11 defines the closed concurrent scenarios of property C11 and the
// worker entry points that run inside the instrumented (schedule exploration)
// and the race-detector (free-running) builds of the harness.
package c11

import (
	"crypto/sha256"
	"fmt"
	"sort"
	"strings"

	"github.com/golang/protobuf/proto"
	"github.com/openacid/slim/encode"
	"github.com/openacid/slim/trie"
	"verif/internal/h"
	"verif/internal/legacy"
	"verif/internal/sched"
)

// GlobalsFn returns the package-level variables of the instrumented packages
// (set by the verifsched build; nil in the plain build).
var GlobalsFn func() []interface{}

// ResetGlobals puts library-side global state that survives a call (pools of the
// cooperative sync shim) back to its initial state; called before every
// execution so that executions are independent and every schedule replays.
var ResetGlobals = func() {}

// Instrumented reports whether scheduling points are compiled in.
var Instrumented = false

// Instance is one shared SlimTrie of a scenario family.
type Instance struct {
	Name string
	// Make builds a new, never-read instance (lazily computed state must be
	// exposed to the very first concurrent calls); ST is one made by Make and
	// warmed by the solo runs.
	Make     func() *trie.SlimTrie
	ST       *trie.SlimTrie
	Keys     []string
	Complete bool
	Typed    bool // values are int32 (GetI32 applies)
	Small    bool // small enough for String/Marshal in the quick tier
	// ValueOps: the alphabet is restricted to the operations that decode stored
	// values (the instance exists for its value encoder).
	ValueOps bool
	// Loads: the operations of this family do not read the shared instance; each
	// loads a stream into (or builds) an instance of its own and reads it.  The
	// shared state they can collide on is package-level state of the load and
	// build paths.
	Loads []LoadOp
}

// LoadOp is one "make an instance of my own and read it" operation.
type LoadOp struct {
	Name string
	Make func() *trie.SlimTrie
	Keys []string
}

// Op is one read operation with fixed arguments.
type Op struct {
	Name string
	Body func(st *trie.SlimTrie) string
	Long bool // long running (rendering, marshalling, long scans)
}

func sha(b []byte) string {
	s := sha256.Sum256(b)
	return fmt.Sprintf("%x", s[:8])
}

func le32(v uint32) []byte { return []byte{byte(v), byte(v >> 8), byte(v >> 16), byte(v >> 24)} }

// Instances builds the instance alphabet (deterministic).
func Instances(seed int64, thorough bool) []*Instance {
	sigma := h.Sigma4(seed)
	var out []*Instance
	mustBuild := func(keys []string, vals []int32, o trie.Opt) *trie.SlimTrie {
		var v interface{}
		if vals != nil {
			v = vals
		}
		st, err := trie.NewSlimTrie(encode.I32{}, keys, v, o)
		if err != nil {
			panic(err)
		}
		return st
	}
	ids := func(n int, run int) []int32 {
		r := make([]int32, n)
		for i := range r {
			r[i] = int32(100 + i/run)
		}
		return r
	}
	// 1. small complete
	smallKeys := []string{"", "\x00", "\x0f\xf0", "\x0f\xff", "\xf0", "\xff\x00\x7f", "\xff\xff"}
	add := func(in *Instance) {
		in.ST = in.Make()
		out = append(out, in)
	}
	add(&Instance{Name: "fresh-complete-small", Make: func() *trie.SlimTrie {
		return mustBuild(smallKeys, ids(len(smallKeys), 1), trie.Opt{Complete: trie.Bool(true)})
	}, Keys: smallKeys, Complete: true, Typed: true, Small: true})
	// 2. fresh default (filter) with de-duplicated values
	add(&Instance{Name: "fresh-filter-dedup", Make: func() *trie.SlimTrie { return mustBuild(smallKeys, ids(len(smallKeys), 2), trie.Opt{}) }, Keys: smallKeys, Typed: true, Small: true})
	// 3. fresh complete with a 257-bit root and short nodes
	{
		sc := h.ScaffoldBigRoot(sigma, "in").Apply([]string{"", "\x00\xff", "\xff"})
		n := 2
		filler := h.ShortFillerKeys(sigma, n, 16, true)
		keys := append(append([]string{}, sc.Keys...), filler...)
		sort.Strings(keys)
		keys = uniqS(keys)
		mk := func() *trie.SlimTrie { return mustBuild(keys, ids(len(keys), 1), trie.Opt{Complete: trie.Bool(true)}) }
		add(&Instance{Name: "fresh-complete-big-short", Make: mk, Keys: keys, Complete: true, Typed: true})
		// 4. loaded from current bytes
		buf, err := mk().Marshal()
		if err != nil {
			panic(err)
		}
		add(&Instance{Name: "loaded-current-big-short", Make: func() *trie.SlimTrie {
			st2, _ := trie.NewSlimTrie(encode.I32{}, nil, nil)
			if err := st2.Unmarshal(append([]byte{}, buf...)); err != nil {
				panic(err)
			}
			return st2
		}, Keys: keys, Complete: true, Typed: true})
	}
	// 5. loaded from 0.5.10 allpref (prefix re-encoding path)
	{
		keys := []string{"", "\x00\x10", "\x00\x1f\x01", "\x00\x1f\x02", "\x7f", "\xff\xf0", "\xff\xf1\x00"}
		bv := make([][]byte, len(keys))
		for i := range bv {
			bv[i] = le32(uint32(200 + i))
		}
		stream := legacy.Flavours0510["allpref"].Stream("0.5.10", keys, bv)
		add(&Instance{Name: "loaded-0.5.10-allpref", Make: func() *trie.SlimTrie {
			st, _ := trie.NewSlimTrie(encode.I32{}, nil, nil)
			if err := st.Unmarshal(append([]byte{}, stream...)); err != nil {
				panic(err)
			}
			return st
		}, Keys: keys, Complete: true, Typed: true, Small: true})
		// 6. loaded from 0.5.9 (rebuild path)
		vals := make([]uint32, len(keys))
		for i := range vals {
			vals[i] = uint32(300 + i)
		}
		old, _ := legacy.WriteOld(keys, vals, legacy.FlavourOf("0.5.9"))
		add(&Instance{Name: "loaded-0.5.9", Make: func() *trie.SlimTrie {
			st3, _ := trie.NewSlimTrie(encode.I32{}, nil, nil)
			if err := st3.Unmarshal(append([]byte{}, old...)); err != nil {
				panic(err)
			}
			return st3
		}, Keys: keys, Typed: true, Small: true})
	}
	// 8./9. value encoders that are objects with fields of their own (a
	// TypeEncoder over a struct) or variable width (String16): concurrent reads
	// of DIFFERENT values meet inside the encoder
	{
		type rec struct {
			A int32
			B uint16
		}
		recs := make([]rec, len(smallKeys))
		strs := make([]string, len(smallKeys))
		for i := range recs {
			recs[i] = rec{A: int32(0x01010101 * (i + 1)), B: uint16(0x0101 * (i + 1))}
			strs[i] = strings.Repeat(string(rune('a'+i)), 1+i%3)
		}
		add(&Instance{Name: "fresh-complete-typeencoder", Make: func() *trie.SlimTrie {
			enc, err := encode.NewTypeEncoder(rec{})
			if err != nil {
				panic(err)
			}
			st, err := trie.NewSlimTrie(enc, smallKeys, recs, trie.Opt{Complete: trie.Bool(true)})
			if err != nil {
				panic(err)
			}
			return st
		}, Keys: smallKeys, Complete: true, Small: true, ValueOps: true})
		add(&Instance{Name: "fresh-filter-string16", Make: func() *trie.SlimTrie {
			st, err := trie.NewSlimTrie(encode.String16{}, smallKeys, strs)
			if err != nil {
				panic(err)
			}
			return st
		}, Keys: smallKeys, Small: true, ValueOps: true})
	}
	// 7. separate instances made concurrently: loads of the 0.5.10, 0.5.11 and
	// current stream generations (no shared instance at all)
	{
		keysA := []string{"", "\x00\x10", "\x00\x1f\x01", "\x00\x1f\x02", "\xff\xf0"}
		keysB := []string{"\x0f", "\x0f\xf0\x00", "\x0f\xf0\xff", "\x7f\x00", "\x7f\x01"}
		bvals := func(n, base int) [][]byte {
			bv := make([][]byte, n)
			for i := range bv {
				bv[i] = le32(uint32(base + i))
			}
			return bv
		}
		load := func(stream []byte) func() *trie.SlimTrie {
			return func() *trie.SlimTrie {
				st, _ := trie.NewSlimTrie(encode.I32{}, nil, nil)
				if err := st.Unmarshal(append([]byte{}, stream...)); err != nil {
					panic(err)
				}
				return st
			}
		}
		sA := legacy.Flavours0510["allpref"].Stream("0.5.10", keysA, bvals(len(keysA), 400))
		sB := legacy.Flavours0510["innpref"].Stream("0.5.11", keysB, bvals(len(keysB), 500))
		u32 := func(n, base int) []uint32 {
			r := make([]uint32, n)
			for i := range r {
				r[i] = uint32(base + i)
			}
			return r
		}
		sC, _ := legacy.WriteOld(keysA, u32(len(keysA), 600), legacy.FlavourOf("0.5.9"))
		cur, err := mustBuild(keysB, ids(len(keysB), 1), trie.Opt{Complete: trie.Bool(true)}).Marshal()
		if err != nil {
			panic(err)
		}
		loads := []LoadOp{
			{"Load(0.5.10-allpref A)", load(sA), keysA},
			{"Load(0.5.11-innpref B)", load(sB), keysB},
			{"Load(current B)", load(cur), keysB},
		}
		// Not in the alphabet: NewSlimTrie and the pre-0.5.10 load (which rebuilds
		// through the same creator).  The builder ranges over Go maps, whose
		// iteration order the scheduler cannot own: the step sequence of a build
		// differs from run to run and no schedule would replay.
		_ = sC
		add(&Instance{Name: "separate-instances", Make: func() *trie.SlimTrie {
			st, _ := trie.NewSlimTrie(encode.I32{}, nil, nil)
			return st
		}, Keys: keysA, Loads: loads})
	}
	return out
}

func uniqS(s []string) []string {
	out := s[:0]
	for i, x := range s {
		if i == 0 || x != s[i-1] {
			out = append(out, x)
		}
	}
	return out
}

// OpsFor returns the operation alphabet for an instance with colliding arguments.
func OpsFor(in *Instance, thorough bool) []Op {
	if in.Loads != nil {
		var ops []Op
		for _, lo := range in.Loads {
			lo := lo
			ops = append(ops, Op{Name: lo.Name + "+read", Long: true, Body: func(_ *trie.SlimTrie) string {
				st := lo.Make()
				var sb strings.Builder
				for _, k := range lo.Keys {
					v, f := st.Get(k)
					l, e, r := st.Search(k + "\x01")
					fmt.Fprint(&sb, v, f, l, e, r, ";")
				}
				b, err := st.Marshal()
				return sha([]byte(sb.String())) + sha(b) + fmt.Sprint(err)
			}})
		}
		return ops
	}
	keys := in.Keys
	k1 := keys[len(keys)/2]
	k2 := keys[len(keys)/2+1] // neighbour sharing a path prefix
	absent := k1 + "\x01"     // ends inside / after a stored prefix
	if len(k1) > 0 {
		absent = k1[:len(k1)-1] + "\x7e"
	}
	var ops []Op
	add := func(name string, long bool, f func(st *trie.SlimTrie) string) {
		ops = append(ops, Op{Name: name, Body: f, Long: long})
	}
	if in.ValueOps {
		add("Get(k1)", false, func(st *trie.SlimTrie) string { v, f := st.Get(k1); return fmt.Sprint(v, f) })
		add("Get(k2)", false, func(st *trie.SlimTrie) string { v, f := st.Get(k2); return fmt.Sprint(v, f) })
		add("RangeGet(absent)", false, func(st *trie.SlimTrie) string { v, f := st.RangeGet(absent); return fmt.Sprint(v, f) })
		add("Search(k2)", false, func(st *trie.SlimTrie) string { l, e, r := st.Search(k2); return fmt.Sprint(l, e, r) })
		add("String", true, func(st *trie.SlimTrie) string { return sha([]byte(st.String())) })
		return ops
	}
	add("Get(k1)", false, func(st *trie.SlimTrie) string { v, f := st.Get(k1); return fmt.Sprint(v, f) })
	add("Get(absent)", false, func(st *trie.SlimTrie) string { v, f := st.Get(absent); return fmt.Sprint(v, f) })
	add("GetID(k2)", false, func(st *trie.SlimTrie) string { return fmt.Sprint(st.GetID(k2)) })
	add("RangeGet(absent)", false, func(st *trie.SlimTrie) string { v, f := st.RangeGet(absent); return fmt.Sprint(v, f) })
	add("Search(k1)", false, func(st *trie.SlimTrie) string { l, e, r := st.Search(k1); return fmt.Sprint(l, e, r) })
	add("Search(absent)", false, func(st *trie.SlimTrie) string { l, e, r := st.Search(absent); return fmt.Sprint(l, e, r) })
	if in.Typed {
		add("GetI32(k2)", false, func(st *trie.SlimTrie) string { v, f := st.GetI32(k2); return fmt.Sprint(v, f) })
	}
	add("Stat", false, func(st *trie.SlimTrie) string { return fmt.Sprintf("%+v", *st.Stat()) })
	add("Stat+overwrite-result", false, func(st *trie.SlimTrie) string {
		// the returned report belongs to the caller, who may do with it what it wants
		s := st.Stat()
		res := fmt.Sprintf("%+v", *s)
		s.KeyCnt, s.NodeCnt, s.LevelCnt = -1, -1, -1
		for i := range s.Levels {
			s.Levels[i].Total = -7
		}
		s.Levels = s.Levels[:0]
		return res
	})
	if in.Complete {
		scanLimit := 3
		if thorough {
			scanLimit = 6
		}
		add("ScanFrom(k1)", true, func(st *trie.SlimTrie) string {
			var sb strings.Builder
			n := 0
			st.ScanFrom(k1, true, true, func(k, v []byte) bool { fmt.Fprintf(&sb, "%x=%x,", k, v); n++; return n < scanLimit })
			return sb.String()
		})
		add("ScanFromTo(absent,k2+)", true, func(st *trie.SlimTrie) string {
			var sb strings.Builder
			n := 0
			st.ScanFromTo(absent, false, k2+"\xff", true, false, func(k, v []byte) bool { fmt.Fprintf(&sb, "%x=%x,", k, v); n++; return n < scanLimit })
			return sb.String()
		})
		add("NewIter(k1)+next", true, func(st *trie.SlimTrie) string {
			var sb strings.Builder
			nxt := st.NewIter(k1, false, true)
			for i := 0; i < scanLimit; i++ {
				k, v := nxt()
				fmt.Fprintf(&sb, "%x=%x,", k, v)
			}
			return sb.String()
		})
		add("NewIter('')+next", true, func(st *trie.SlimTrie) string {
			var sb strings.Builder
			nxt := st.NewIter("", true, false)
			for i := 0; i < scanLimit; i++ {
				k, v := nxt()
				fmt.Fprintf(&sb, "%x=%x,", k, v)
			}
			return sb.String()
		})
	}
	if in.Small {
		add("String", true, func(st *trie.SlimTrie) string { return sha([]byte(st.String())) })
		add("Marshal", true, func(st *trie.SlimTrie) string {
			b, err := st.Marshal()
			return sha(b) + fmt.Sprint(err)
		})
		add("proto.Size", true, func(st *trie.SlimTrie) string { return fmt.Sprint(proto.Size(st)) })
		add("Marshal+overwrite-result", true, func(st *trie.SlimTrie) string {
			// the returned bytes belong to the caller, who may do with them what it wants
			b, err := st.Marshal()
			res := sha(b) + fmt.Sprint(err)
			for i := range b {
				b[i] = 0xa5
			}
			return res
		})
	}
	return ops
}

// ScenarioSpec names one scenario: an instance and 2 or 3 ops.
type ScenarioSpec struct {
	Inst int
	Ops  []int
}

// Specs enumerates all unordered pairs (with repetition) of ops per instance
// and a fixed set of triples.
func Specs(insts []*Instance, thorough bool) []ScenarioSpec {
	var specs []ScenarioSpec
	for ii, in := range insts {
		ops := OpsFor(in, thorough)
		for a := 0; a < len(ops); a++ {
			for b := a; b < len(ops); b++ {
				// quick tier: on the first instance all pairs of short operations and
				// every long operation with itself, with the first lookup, with the
				// absent Search and with its neighbour in the alphabet; on the other
				// instances every operation with itself and with the first lookup,
				// and neighbouring short operations
				if !thorough && in.Loads != nil {
					// quick: every operation with itself, the first load with every other one
					if !(a == b || a == 0) {
						continue
					}
				} else if !thorough {
					long := ops[a].Long || ops[b].Long
					keep := a == b || a == 0
					if ii == 0 {
						keep = keep || !long || b == a+1 || ops[a].Name == "Search(absent)"
					} else {
						keep = keep || (!long && b == a+1)
					}
					if !keep {
						continue
					}
				}
				specs = append(specs, ScenarioSpec{ii, []int{a, b}})
			}
		}
		// triples of short ops (and one long) with colliding arguments
		var short []int
		for i, o := range ops {
			if !o.Long {
				short = append(short, i)
			}
		}
		cnt := 0
		maxTriples := 4
		if thorough {
			maxTriples = 20
		}
		for x := 0; x < len(short) && cnt < maxTriples; x++ {
			for y := x; y < len(short) && cnt < maxTriples; y += 2 {
				z := (x + y + 1) % len(short)
				specs = append(specs, ScenarioSpec{ii, []int{short[x], short[y], short[z]}})
				cnt++
			}
		}
	}
	return specs
}

// Build makes the executable scenario of a spec.
func Build(insts []*Instance, sp ScenarioSpec, thorough bool, cold bool) *sched.Scenario {
	in := insts[sp.Inst]
	ops := OpsFor(in, thorough)
	sc := &sched.Scenario{}
	var names []string
	for _, oi := range sp.Ops {
		names = append(names, ops[oi].Name)
	}
	sc.Name = in.Name + ": " + strings.Join(names, " || ")
	if !cold {
		sc.Name += " (warm)"
	}
	sc.Ops = names
	var mw *h.MemWatch
	roots := func(st *trie.SlimTrie) []interface{} {
		r := []interface{}{st}
		if GlobalsFn != nil {
			r = append(r, GlobalsFn()...)
		}
		return r
	}
	if cold {
		// every execution gets a new, never-read instance and its own memory watch
		sc.Mk = func() []*sched.Thread {
			ResetGlobals()
			st := in.Make()
			mw = h.NewMemWatch(roots(st)...)
			var ths []*sched.Thread
			for i, oi := range sp.Ops {
				body := ops[oi].Body
				ths = append(ths, &sched.Thread{ID: i, Body: func() string { return body(st) }})
			}
			return ths
		}
		for _, oi := range sp.Ops {
			body := ops[oi].Body
			sc.Solo = append(sc.Solo, safeRun(func() string { ResetGlobals(); return body(in.Make()) }))
		}
		sc.Changed = func() bool { return mw != nil && mw.Changed() }
	} else {
		// every execution gets a new instance on which each operation of the
		// scenario has already run once, alone (outside the scheduler): state that
		// reads compute lazily is populated when the threads start.  A new
		// instance per execution keeps executions independent of each other, so
		// every schedule replays.
		warmed := func() *trie.SlimTrie {
			st := in.Make()
			for _, oi := range sp.Ops {
				body := ops[oi].Body
				safeRun(func() string { return body(st) })
			}
			return st
		}
		sc.Mk = func() []*sched.Thread {
			ResetGlobals()
			st := warmed()
			mw = h.NewMemWatch(roots(st)...)
			var ths []*sched.Thread
			for i, oi := range sp.Ops {
				body := ops[oi].Body
				ths = append(ths, &sched.Thread{ID: i, Body: func() string { return body(st) }})
			}
			return ths
		}
		for _, oi := range sp.Ops {
			body := ops[oi].Body
			sc.Solo = append(sc.Solo, safeRun(func() string { ResetGlobals(); return body(warmed()) }))
		}
		sc.Changed = func() bool { return mw != nil && mw.Changed() }
	}
	sc.CacheOK = true
	return sc
}

func safeRun(f func() string) (res string) {
	defer func() {
		if r := recover(); r != nil {
			res = fmt.Sprintf("panic: %v", r)
		}
	}()
	return f()
}
