//go:build verifsched
// +build verifsched

package c11

import (
	"github.com/openacid/slim/array"
	"github.com/openacid/slim/encode"
	"github.com/openacid/slim/index"
	"github.com/openacid/slim/trie"
	"github.com/openacid/slim/verifsync"
	"verif/internal/sched"
)

func init() {
	Instrumented = true
	trie.VerifYieldHook = sched.Point
	encode.VerifYieldHook = sched.Point
	array.VerifYieldHook = sched.Point
	index.VerifYieldHook = sched.Point
	verifsync.YieldHook = sched.Point
	ResetGlobals = verifsync.ResetPools
	GlobalsFn = func() []interface{} {
		var g []interface{}
		g = append(g, trie.VerifGlobals()...)
		g = append(g, encode.VerifGlobals()...)
		g = append(g, array.VerifGlobals()...)
		g = append(g, index.VerifGlobals()...)
		return g
	}
}
