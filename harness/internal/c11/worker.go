package c11

import (
	"encoding/json"
	"fmt"
	"os"
	"runtime"
	"strings"
	"sync"
	"time"

	"verif/internal/sched"
)

// WorkerResult is what one exploration shard reports.
type WorkerResult struct {
	Shard       int                      `json:"shard"`
	Scenarios   int                      `json:"scenarios"`
	Completed   int                      `json:"completed"` // scenarios explored completely (no shared write, whole lattice)
	Runs        int64                    `json:"runs"`
	Steps       int64                    `json:"steps"`
	States      int64                    `json:"states"`
	DigestChg   int64                    `json:"digest_changes"`
	BoundedRuns int64                    `json:"bounded_runs"`
	BoundDone   int                      `json:"bound_done"`
	DeadlineHit bool                     `json:"deadline_hit"`
	Violation   *sched.Violation         `json:"violation,omitempty"`
	Error       string                   `json:"error,omitempty"`
	// Unexplorable: scenarios in which an operation blocks outside the scheduler's control
	Unexplorable []string `json:"unexplorable,omitempty"`
	Samples     []map[string]interface{} `json:"samples,omitempty"`
	WriteScen   []string                 `json:"scenarios_with_shared_writes,omitempty"`
	MaxStepsOp  int                      `json:"max_steps_per_thread"`
}

// RunWorker explores the scenarios of one shard (instrumented build only).
func RunWorker(shard, of int, seed int64, thorough bool, budget time.Duration, pb int) *WorkerResult {
	res := &WorkerResult{Shard: shard, BoundDone: pb}
	if !Instrumented {
		res.Error = "c11worker needs the instrumented build (tag verifsched + overlay)"
		return res
	}
	runtime.GOMAXPROCS(1)
	insts := Instances(seed, thorough)
	specs := Specs(insts, thorough)
	deadline := time.Now().Add(budget)
	for si, sp := range specs {
		if si%of != shard {
			continue
		}
		sc := Build(insts, sp, thorough, true)
		res.Scenarios++
		// (1) complete lattice exploration with the read-only state cache
		// (three-thread lattices are explored to the preemption bound only)
		useCache := len(sp.Ops) == 2
		pbHere := pb
		if !useCache {
			// three threads, no cache: the number of schedules grows with
			// steps^bound; bound 1 in quick, 2 in thorough
			pbHere = 1
			if thorough {
				pbHere = 2
			}
		}
		st, viol, err := sched.Explore(sc, useCache, pbHere, deadline, 400000)
		res.Runs += st.Runs
		res.Steps += st.Steps
		res.States += st.States
		res.DigestChg += st.DigestChanges
		for _, s := range st.StepsPerThread {
			if s > res.MaxStepsOp {
				res.MaxStepsOp = s
			}
		}
		if err != nil && strings.Contains(err.Error(), "step limit") {
			// an operation waits for another thread outside the scheduler's control
			// (a channel, a condition): the cooperative explorer cannot run this
			// scenario; it is left to the free-running pass and reported as not explored
			res.Unexplorable = append(res.Unexplorable, sc.Name)
			continue
		}
		if err != nil {
			res.Error = err.Error()
			return res
		}
		if viol != nil {
			res.Violation = viol
			return res
		}
		if st.DeadlineHit {
			res.DeadlineHit = true
			break
		}
		if st.Complete {
			res.Completed++
		}
		if st.DigestChanges > 0 {
			res.WriteScen = append(res.WriteScen, sc.Name)
		}
		// (2) schedule exploration without the cache up to the preemption bound,
		// for scenarios short enough (guards against state the digest cannot see)
		total := 0
		for _, s := range st.StepsPerThread {
			total += s
		}
		// the number of schedules grows with steps^bound: bound 2 up to 170 steps
		// (quick) / 420 steps (thorough), bound 3 up to 120 steps (thorough)
		pb2 := 0
		switch {
		case thorough && total <= 120:
			pb2 = 3
		case thorough && total <= 420:
			pb2 = 2
		case !thorough && total <= 170:
			pb2 = 2
		}
		if st.DigestChanges > 0 && useCache {
			// a read wrote shared memory (a cache, a memo): what such state does to
			// OTHER reads shows only once earlier operations have filled it, i.e. on
			// the warmed instance; the bounded pass then runs whatever the length of
			// the scenario (on the unchanged tree no read writes, so this costs nothing)
			switch {
			case pb2 >= 2:
			case total <= 600:
				pb2 = 2
			default:
				pb2 = 1
			}
		}
		if pb2 > 0 && useCache {
			// on the shared instance that the solo runs have warmed
			warm := Build(insts, sp, thorough, false)
			st2, viol, err := sched.Explore(warm, false, pb2, deadline, 400000)
			res.BoundedRuns += st2.Runs
			res.Steps += st2.Steps
			if err != nil {
				res.Error = err.Error()
				return res
			}
			if viol != nil {
				res.Violation = viol
				return res
			}
			if st2.DeadlineHit {
				res.DeadlineHit = true
				break
			}
		}
		if len(res.Samples) < 2 {
			res.Samples = append(res.Samples, map[string]interface{}{"scenario": sc.Name, "steps_per_thread": st.StepsPerThread, "lattice_states": st.States, "schedules": st.Runs, "complete": st.Complete})
		}
	}
	return res
}

// ReplaySchedule replays one violation (instrumented build only); it returns the results.
func ReplaySchedule(seed int64, thorough bool, v *sched.Violation) ([]string, []string, error) {
	insts := Instances(seed, thorough)
	for _, sp := range Specs(insts, thorough) {
		sc := Build(insts, sp, thorough, !strings.HasSuffix(v.Scenario, " (warm)"))
		if sc.Name == v.Scenario {
			r, err := sched.Replay(sc, v.Schedule, 400000)
			return r, sc.Solo, err
		}
	}
	return nil, nil, fmt.Errorf("scenario %q not found", v.Scenario)
}

// RaceResult is what the free-running pass reports.
type RaceResult struct {
	Scenarios  int    `json:"scenarios"`
	Executions int64  `json:"executions"`
	Goroutines []int  `json:"goroutine_counts"`
	Mismatch   string `json:"mismatch,omitempty"`
}

// RunRace runs the same scenario bodies free-running with 2..32 goroutines
// (meant for the -race build: a race report makes the process exit 66).
func RunRace(seed int64, thorough bool, budget time.Duration) *RaceResult {
	res := &RaceResult{Goroutines: []int{2, 3, 8, 32}}
	insts := Instances(seed, thorough)
	specs := Specs(insts, thorough)
	deadline := time.Now().Add(budget)
	reps := 2
	if thorough {
		reps = 8
	}
	for _, sp := range specs {
		if time.Now().After(deadline) {
			break
		}
		sc := Build(insts, sp, thorough, true)
		res.Scenarios++
		for _, g := range res.Goroutines {
			for rep := 0; rep < reps; rep++ {
				var wg sync.WaitGroup
				results := make([]string, g)
				start := make(chan struct{})
				ths := sc.Mk()
				for i := 0; i < g; i++ {
					wg.Add(1)
					go func(i int) {
						defer wg.Done()
						<-start
						if i%3 == 1 {
							runtime.Gosched()
						}
						body := ths[i%len(ths)].Body
						results[i] = safeRun(body)
					}(i)
				}
				close(start)
				wg.Wait()
				res.Executions += int64(g)
				for i, r := range results {
					if r != sc.Solo[i%len(ths)] {
						res.Mismatch = fmt.Sprintf("scenario %s with %d goroutines: goroutine %d returned %q, alone %q", sc.Name, g, i, r, sc.Solo[i%len(ths)])
						return res
					}
				}
			}
		}
	}
	return res
}

// Emit writes v as JSON to stdout.
func Emit(v interface{}) {
	b, _ := json.Marshal(v)
	os.Stdout.Write(append(b, '\n'))
}
