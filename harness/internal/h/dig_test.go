package h

import (
	"testing"

	"github.com/openacid/slim/encode"
	"github.com/openacid/slim/trie"
)

func TestDigest(t *testing.T) {
	mk := func(v int32) *trie.SlimTrie {
		st, _ := trie.NewSlimTrie(encode.I32{}, []string{"a", "b", "cd"}, []int32{1, v, 3}, trie.Opt{Complete: trie.Bool(true)})
		return st
	}
	a, b, c := mk(2), mk(2), mk(5)
	if Digest(a) != Digest(b) {
		t.Fatal("equal tries digest differently")
	}
	if Digest(a) == Digest(c) {
		t.Fatal("different tries digest equally")
	}
	a.Marshal()
	if Digest(a) != Digest(b) {
		t.Fatal("Marshal changed digest")
	}
	te, _ := encode.NewTypeEncoder(int32(0))
	st, _ := trie.NewSlimTrie(te, []string{"a"}, []int32{1})
	_ = Digest(st)
}
