package h

import (
	"testing"

	"github.com/openacid/slim/encode"
	"github.com/openacid/slim/trie"
)

func TestDigest(t *testing.T) {
	mk := func(v int32) *trie.SlimTrie {
		st, _ := trie.NewSlimTrie(encode.I32{}, []string{"a", "b", "cd"}, []int32{1, v, 3}, trie.Opt{Complete: trie.Bool(true)})
		return st
	}
	a, b, c := mk(2), mk(2), mk(5)
	if Digest(a) != Digest(b) {
		t.Fatal("equal tries digest differently")
	}
	if Digest(a) == Digest(c) {
		t.Fatal("different tries digest equally")
	}
	a.Marshal()
	if Digest(a) != Digest(b) {
		t.Fatal("Marshal changed digest")
	}
	te, _ := encode.NewTypeEncoder(int32(0))
	st, _ := trie.NewSlimTrie(te, []string{"a"}, []int32{1})
	_ = Digest(st)
}

func TestMemWatch(t *testing.T) {
	st, _ := trie.NewSlimTrie(encode.I32{}, []string{"a", "b", "cd", "ce"}, []int32{1, 2, 3, 4}, trie.Opt{Complete: trie.Bool(true)})
	g := 5
	w := NewMemWatch(st, &g)
	n, b, s := w.Regions()
	t.Logf("regions=%d bytes=%d slow=%d", n, b, s)
	if w.Changed() {
		t.Fatal("changed without a write")
	}
	st.Get("cd")
	st.Marshal()
	_ = st.String()
	if w.Changed() {
		t.Fatal("reads changed the watched memory")
	}
	g = 6
	if !w.Changed() {
		t.Fatal("global write not seen")
	}
	if w.Changed() {
		t.Fatal("change reported twice")
	}
	buf, _ := st.Marshal()
	st.Unmarshal(buf)
	if !w.Changed() {
		t.Fatal("reload not seen")
	}
	st.Reset()
	if !w.Changed() {
		t.Fatal("reset not seen")
	}
}
