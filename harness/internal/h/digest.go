package h

import (
	"encoding/binary"
	"fmt"
	"hash"
	"hash/fnv"
	"reflect"
	"sort"
	"unsafe"
)

// Digest is a deep digest of everything reachable from v (reflect + unsafe over
// unexported fields, cycle-safe, maps in sorted order).  The protobuf memo
// field XXX_sizecache is excluded: it caches a pure function of the message.
// Because fields are walked dynamically, fields added by a later change are
// covered too.
func Digest(v interface{}) uint64 {
	d := &digester{h: fnv.New64a(), seen: map[visit]bool{}}
	d.walk(reflect.ValueOf(v), 0)
	return d.h.Sum64()
}

func fnvNew() hash.Hash64 { return fnv.New64a() }

type visit struct {
	p unsafe.Pointer
	t reflect.Type
}

type digester struct {
	h    hash.Hash64
	seen map[visit]bool
	buf  [8]byte
}

func (d *digester) u64(x uint64) {
	binary.LittleEndian.PutUint64(d.buf[:], x)
	d.h.Write(d.buf[:])
}

func (d *digester) str(s string) {
	d.u64(uint64(len(s)))
	d.h.Write([]byte(s))
}

// access makes an unexported (read-only) value usable.
func access(v reflect.Value) reflect.Value {
	if v.CanInterface() || !v.CanAddr() {
		return v
	}
	return reflect.NewAt(v.Type(), unsafe.Pointer(v.UnsafeAddr())).Elem()
}

func (d *digester) walk(v reflect.Value, depth int) {
	if depth > 200 {
		d.str("<deep>")
		return
	}
	if !v.IsValid() {
		d.str("<invalid>")
		return
	}
	v = access(v)
	t := v.Type()
	if t.PkgPath() == "reflect" || (t.Kind() == reflect.Ptr && t.Elem().PkgPath() == "reflect") {
		// reflect.Type and friends: identify by name, do not walk runtime type data
		if v.CanInterface() {
			d.str(fmt.Sprintf("reflect:%v", v.Interface()))
		} else {
			d.str("reflect:" + t.String())
		}
		return
	}
	switch v.Kind() {
	case reflect.Bool:
		if v.Bool() {
			d.u64(1)
		} else {
			d.u64(0)
		}
	case reflect.Int, reflect.Int8, reflect.Int16, reflect.Int32, reflect.Int64:
		d.u64(uint64(v.Int()))
	case reflect.Uint, reflect.Uint8, reflect.Uint16, reflect.Uint32, reflect.Uint64, reflect.Uintptr:
		d.u64(v.Uint())
	case reflect.Float32, reflect.Float64:
		d.str(fmt.Sprint(v.Float()))
	case reflect.Complex64, reflect.Complex128:
		d.str(fmt.Sprint(v.Complex()))
	case reflect.String:
		d.str(v.String())
	case reflect.Ptr:
		if v.IsNil() {
			d.str("<nilptr>")
			return
		}
		key := visit{unsafe.Pointer(v.Pointer()), t}
		if d.seen[key] {
			d.str("<cycle>")
			return
		}
		d.seen[key] = true
		d.str("ptr")
		d.walk(v.Elem(), depth+1)
		delete(d.seen, key)
	case reflect.Interface:
		if v.IsNil() {
			d.str("<nilif>")
			return
		}
		d.str("if:" + v.Elem().Type().String())
		e := v.Elem()
		if !e.CanAddr() && !e.CanInterface() {
			// a value stored in an unexported interface field: copy through unsafe
			// is not possible; fall back to its formatted form
			d.str(fmt.Sprintf("%v", e))
			return
		}
		d.walk(e, depth+1)
	case reflect.Struct:
		d.str("struct:" + t.String())
		for i := 0; i < v.NumField(); i++ {
			f := t.Field(i)
			if f.Name == "XXX_sizecache" {
				continue
			}
			d.str(f.Name)
			d.walk(v.Field(i), depth+1)
		}
	case reflect.Slice:
		if v.IsNil() {
			d.str("<nilslice>")
			return
		}
		d.u64(uint64(v.Len()))
		if t.Elem().Kind() == reflect.Uint8 {
			d.h.Write(v.Bytes())
			return
		}
		for i := 0; i < v.Len(); i++ {
			d.walk(v.Index(i), depth+1)
		}
	case reflect.Array:
		for i := 0; i < v.Len(); i++ {
			d.walk(v.Index(i), depth+1)
		}
	case reflect.Map:
		if v.IsNil() {
			d.str("<nilmap>")
			return
		}
		type kvd struct{ k, v uint64 }
		var items []kvd
		it := v.MapRange()
		for it.Next() {
			dk := &digester{h: fnv.New64a(), seen: d.seen}
			dk.walk(it.Key(), depth+1)
			dv := &digester{h: fnv.New64a(), seen: d.seen}
			dv.walk(it.Value(), depth+1)
			items = append(items, kvd{dk.h.Sum64(), dv.h.Sum64()})
		}
		sort.Slice(items, func(i, j int) bool {
			if items[i].k != items[j].k {
				return items[i].k < items[j].k
			}
			return items[i].v < items[j].v
		})
		d.u64(uint64(len(items)))
		for _, it := range items {
			d.u64(it.k)
			d.u64(it.v)
		}
	case reflect.Func:
		if v.IsNil() {
			d.str("<nilfunc>")
		} else {
			d.str("func")
		}
	case reflect.Chan, reflect.UnsafePointer:
		d.str("<opaque>")
	default:
		d.str("<kind:" + v.Kind().String() + ">")
	}
}
