package h

import (
	"fmt"
	"sort"
	"strings"
)

// Scaffolded is a key list built around a variable set S: the fixed part
// forces a structural feature of the builder, the variable part still ranges
// over all of K(U,k).
type Scaffolded struct {
	Name string
	Keys []string // sorted, distinct
	// IsVar[i] tells whether Keys[i] comes from the variable set.
	IsVar []bool
	// Lift maps a query of the variable universe into this scaffold's key space.
	Lift func(q string) string
}

// Scaffold maps variable sets to key lists.
type Scaffold struct {
	Name  string
	Apply func(S []string) *Scaffolded
}

func mk(name string, fixed []string, S []string, lift func(string) string) *Scaffolded {
	type kv struct {
		k string
		v bool
	}
	m := map[string]bool{}
	for _, f := range fixed {
		m[f] = false
	}
	for _, s := range S {
		m[lift(s)] = true
	}
	all := make([]kv, 0, len(m))
	for k, v := range m {
		all = append(all, kv{k, v})
	}
	sort.Slice(all, func(i, j int) bool { return all[i].k < all[j].k })
	sc := &Scaffolded{Name: name, Lift: lift}
	for _, e := range all {
		sc.Keys = append(sc.Keys, e.k)
		sc.IsVar = append(sc.IsVar, e.v)
	}
	return sc
}

// ValIDs builds value ids for a scaffolded list: variable keys follow the run
// pattern (ids 1,2,..), fixed keys get ids from fillerMode:
//
//	"distinct": 1000+i (all retained)
//	"pairs":    1000+i/2 (every second filler key is de-duplicated away)
func (sc *Scaffolded) ValIDs(pattern uint64, zigzag bool, fillerMode string) []int {
	nv := 0
	for _, v := range sc.IsVar {
		if v {
			nv++
		}
	}
	pv := RunPatternValues(nv, pattern, zigzag)
	ids := make([]int, len(sc.Keys))
	j := 0
	fi := 0
	for i, v := range sc.IsVar {
		if v {
			ids[i] = pv[j]
			j++
		} else {
			switch fillerMode {
			case "pairs":
				ids[i] = 1000 + fi/2
			default:
				ids[i] = 1000 + fi
			}
			fi++
		}
	}
	return ids
}

// NVar is the number of variable keys.
func (sc *Scaffolded) NVar() int {
	n := 0
	for _, v := range sc.IsVar {
		if v {
			n++
		}
	}
	return n
}

// freeBytes returns n bytes not in sigma (and not the extra query symbol), ascending,
// spread over the byte range.
func freeBytes(sigma []byte, n int, lo, hi int) []byte {
	used := map[byte]bool{ExtraSymbol(sigma): true}
	for _, s := range sigma {
		used[s] = true
	}
	var cand []byte
	for b := lo; b <= hi; b++ {
		if !used[byte(b)] {
			cand = append(cand, byte(b))
		}
	}
	if len(cand) < n {
		panic("not enough free bytes")
	}
	// spread
	out := make([]byte, 0, n)
	for i := 0; i < n; i++ {
		out = append(out, cand[i*len(cand)/n])
	}
	return out
}

// ScaffoldID is the identity scaffold.
func ScaffoldID() Scaffold {
	return Scaffold{"id", func(S []string) *Scaffolded {
		return mk("id", nil, S, func(q string) string { return q })
	}}
}

// ScaffoldLift prefixes every key by P.
func ScaffoldLift(name, P string) Scaffold {
	return Scaffold{name, func(S []string) *Scaffolded {
		return mk(name, nil, S, func(q string) string { return P + q })
	}}
}

// LiftPrefixes returns the prefixes used by the lift scaffolds.
func LiftPrefixes(sigma []byte, thorough bool) map[string]string {
	m := map[string]string{
		"lift1":   "\x5b",
		"lift3":   "\x5b\x00\xff",
		"lift1ff": "\xff",
	}
	if thorough {
		for _, s := range sigma {
			m[fmt.Sprintf("lift2_%02x", s)] = "\x5b" + string([]byte{s})
		}
		m["lift255"] = strings.Repeat("\xa7", 255)
		m["lift256"] = strings.Repeat("\xa7", 256)
		m["lift16383"] = strings.Repeat("\x3c", 16383)
	}
	return m
}

// ScaffoldBigRoot makes the root a 257-bit node. where: "in" S hangs directly in
// the root, "lo"/"mid"/"hi" S hangs below the smallest / a middle / the largest
// first byte.
func ScaffoldBigRoot(sigma []byte, where string) Scaffold {
	name := "bigroot-" + where
	fill := freeBytes(sigma, 13, 0x02, 0xfd)
	return Scaffold{name, func(S []string) *Scaffolded {
		var fixed []string
		switch where {
		case "in":
			for i, f := range fill {
				fixed = append(fixed, string([]byte{f}))
				if i%3 == 0 {
					// some fillers are inner nodes themselves
					fixed = append(fixed, string([]byte{f, 0x00}))
				}
			}
			return mk(name, fixed, S, func(q string) string { return q })
		default:
			var p byte
			switch where {
			case "lo":
				p = 0x01
			case "mid":
				p = fill[6] + 1
			case "hi":
				p = 0xfe
			}
			for _, f := range fill {
				fixed = append(fixed, string([]byte{f}))
			}
			P := string([]byte{p})
			return mk(name, fixed, S, func(q string) string { return P + q })
		}
	}}
}

// ScaffoldBig2 makes the root and the node S hangs under 257-bit nodes.
// variant "in": S's first bytes are 8-bit labels of the depth-2 big node;
// variant "under": S hangs one level deeper (bigness stops at S's own root).
func ScaffoldBig2(sigma []byte, variant string) Scaffold {
	name := "big2-" + variant
	fill := freeBytes(sigma, 12, 0x02, 0xfd)
	return Scaffold{name, func(S []string) *Scaffolded {
		var fixed []string
		// root: 12 filler first bytes (leaves) + 0x01 (the branch of S, first inner node in BFS order)
		for _, f := range fill {
			fixed = append(fixed, string([]byte{f}))
		}
		P := "\x01"
		// node under 0x01: >= 11 filler children
		for _, f := range fill {
			fixed = append(fixed, P+string([]byte{f}))
		}
		switch variant {
		case "in":
			return mk(name, fixed, S, func(q string) string { return P + q })
		default:
			P2 := P + string([]byte{fill[0] - 1})
			return mk(name, fixed, S, func(q string) string { return P2 + q })
		}
	}}
}

// ScaffoldBigNibble makes the root a 257-bit node whose 13 children all share the
// high nibble of their first byte (the first differing bit of the key set is in
// a LOW nibble, so the 8-bit word of the big node must be re-aligned to the byte);
// S hangs below the last of them.
func ScaffoldBigNibble() Scaffold {
	name := "bignib"
	return Scaffold{name, func(S []string) *Scaffolded {
		var fixed []string
		for i := 0; i < 12; i++ {
			fixed = append(fixed, string([]byte{byte(0x60 + i)}))
			if i%4 == 1 {
				fixed = append(fixed, string([]byte{byte(0x60 + i), 0x6f, 0x01}))
			}
		}
		P := "\x6c"
		if len(S) == 0 {
			fixed = append(fixed, P)
		}
		return mk(name, fixed, S, func(q string) string { return P + q })
	}}
}

// ScaffoldBigAlias builds a 257-bit root whose labels below 0x3f are exactly the
// control bytes 0x01 and 0x02 (all others >= 0x40), so the first 64-bit word of
// its bitmap equals the 17-bit bitmap of a node with nibble labels {1,2}; 16
// such 17-bit nodes make that bitmap the most used one (short table).  Code that
// confuses a big node with a table-compressed one is exposed.  S hangs below 0x01.
func ScaffoldBigAlias() Scaffold {
	name := "bigalias"
	return Scaffold{name, func(S []string) *Scaffolded {
		var fixed []string
		fixed = append(fixed, "\x02")
		for i := 0; i < 10; i++ {
			fixed = append(fixed, string([]byte{byte(0x41 + i*0x11)}))
		}
		// 16 one-node subtries with nibble labels {1,2} below byte 0x40 (two levels
		// down, so that the node under 0x40 has at most 8 children and is not big)
		for j := 0; j < 16; j++ {
			p := string([]byte{0x40, byte(0x30 + j%8), byte(0x50 + j/8)})
			fixed = append(fixed, p+"\x15", p+"\x25")
		}
		P := "\x01"
		if len(S) == 0 {
			fixed = append(fixed, P)
		}
		return mk(name, fixed, S, func(q string) string { return P + q })
	}}
}

// ScaffoldBigPair builds two 257-bit nodes (the root and the node under its first
// label) whose label sets are equal except inside 64-bit word k of the 257-bit
// bitmap (k = 0..3; k = 4: the single bit of byte 0xff in word 4): the root carries byte x_k, the second node bytes y_k, y2_k,
// y3_k of that word; S hangs below y_k.  This separates code that looks at a part of a big
// node's bitmap from code that looks at all of it.
func ScaffoldBigPair(k int) Scaffold {
	name := fmt.Sprintf("bigpair%d", k)
	// word w of the bitmap covers label indexes 64w..64w+63 = bytes 64w-1..64w+62
	wordBytes := func(w int, n int, skip int) []byte {
		var out []byte
		lo, hi := 64*w, 64*w+62
		if w == 0 {
			lo = 1
		}
		step := (hi - lo) / (n + skip + 1)
		if step < 1 {
			step = 1
		}
		for b := lo + skip*step; len(out) < n && b <= hi; b += step {
			out = append(out, byte(b))
		}
		return out
	}
	common := wordBytes((k+2)%4, 11, 0)
	xy := wordBytes(k%4, 4, 3)
	if k == 4 {
		// the last bit of the 257-bit bitmap (byte 0xff) in the root, its
		// neighbours in the second node
		common = wordBytes(1, 11, 0)
		xy = []byte{0xff, 0xfe, 0xfd, 0xfc}
	}
	x, y := xy[0], xy[1]
	return Scaffold{name, func(S []string) *Scaffolded {
		var fixed []string
		b0 := common[0]
		for _, c := range common[1:] {
			fixed = append(fixed, string([]byte{c}))
		}
		fixed = append(fixed, string([]byte{x}))
		for _, c := range common {
			fixed = append(fixed, string([]byte{b0, c}))
		}
		// the second node also carries two more labels of word k, so the two nodes
		// differ in their number of children as well
		fixed = append(fixed, string([]byte{b0, xy[2]}), string([]byte{b0, xy[3]}))
		P := string([]byte{b0, y})
		if len(S) == 0 {
			fixed = append(fixed, P)
		}
		return mk(name, fixed, S, func(q string) string { return P + q })
	}}
}

// labelSetKeys returns the keys of a one-node subtrie under prefix P whose 17-bit
// node has exactly the given labels (0 = end of key, 1..16 = high nibble+1).
func labelSetKeys(P string, labels []int) []string {
	var ks []string
	for _, l := range labels {
		if l == 0 {
			ks = append(ks, P)
		} else {
			ks = append(ks, P+string([]byte{byte(l-1)<<4 | 0x05}))
		}
	}
	return ks
}

// fillerPrefixes generates m distinct prefixes of equal length whose first bytes
// take at most 9 values (so the root is never a 257-bit node) and that avoid the
// first byte reserved.
func fillerPrefixes(m int, reserved byte) []string {
	first := []byte{0x21, 0x32, 0x43, 0x54, 0x65, 0x76, 0x87, 0x98, 0xa9}
	for i := range first {
		if first[i] == reserved {
			first[i]++
		}
	}
	three := m > len(first)*200
	ps := make([]string, 0, m)
	for i := 0; len(ps) < m; i++ {
		a := first[i%len(first)]
		j := i / len(first)
		b := byte(0x11 + j%200)
		if three {
			c := byte(1 + j/200)
			ps = append(ps, string([]byte{a, b, c}))
		} else {
			ps = append(ps, string([]byte{a, b}))
		}
	}
	return ps
}

// combos returns up to limit k-subsets of {lo..16} in lexicographic order.
func combos(lo, k, limit int) [][]int {
	var out [][]int
	idx := make([]int, k)
	for i := range idx {
		idx[i] = lo + i
	}
	for {
		out = append(out, append([]int{}, idx...))
		if len(out) >= limit {
			return out
		}
		i := k - 1
		for i >= 0 && idx[i] == 16-(k-1-i) {
			i--
		}
		if i < 0 {
			return out
		}
		idx[i]++
		for j := i + 1; j < k; j++ {
			idx[j] = idx[j-1] + 1
		}
	}
}

func binom(n, k int) int {
	if k < 0 || k > n {
		return 0
	}
	c := 1
	for i := 0; i < k; i++ {
		c = c * (n - i) / (i + 1)
	}
	return c
}

// ShortFillerKeys builds the binomial-profile filler for short-table size s:
// for k = 2..min(s,10) C(s,k) distinct k-label bitmaps, each realised r times.
// The bitmaps of the sigma alphabet's own node shapes come first so that nodes of
// the variable part are table hits.  extraMiss adds frequent bitmaps that do not
// fit the table ("mixed" variant: short and 17-bit nodes side by side).
func ShortFillerKeys(sigma []byte, s int, r int, mixed bool) []string {
	// node shapes the variable part can form: labels over {eok} + high nibbles of sigma
	nibs := map[int]bool{}
	for _, c := range sigma {
		nibs[int(c>>4)+1] = true
		nibs[int(c&0xf)+1] = true
	}
	var sig []int
	for n := range nibs {
		sig = append(sig, n)
	}
	sort.Ints(sig)
	var specs [][]int
	for k := 2; k <= s && k <= 10; k++ {
		want := binom(s, k)
		var chosen [][]int
		seen := map[string]bool{}
		add := func(c []int) {
			key := fmt.Sprint(c)
			if !seen[key] && len(chosen) < want {
				seen[key] = true
				chosen = append(chosen, c)
			}
		}
		// sigma shapes first: subsets of {0}+sig of size k
		base := append([]int{0}, sig...)
		if k <= len(base) {
			var rec func(start int, cur []int)
			rec = func(start int, cur []int) {
				if len(cur) == k {
					add(append([]int{}, cur...))
					return
				}
				for i := start; i < len(base); i++ {
					rec(i+1, append(cur, base[i]))
				}
			}
			rec(0, nil)
		}
		for _, c := range combos(0, k, want*2+8) {
			add(c)
		}
		specs = append(specs, chosen...)
	}
	var miss [][]int
	if mixed {
		// frequent bitmaps with more labels than fit (k = s+1 .. ) or beyond the quota
		k := s + 1
		if k > 11 {
			k = 11
		}
		if k < 3 {
			k = 3
		}
		for _, c := range combos(1, k, 3) {
			miss = append(miss, c)
		}
	}
	total := len(specs)*r + len(miss)*r
	ps := fillerPrefixes(total, 0)
	var keys []string
	pi := 0
	for _, sp := range specs {
		for c := 0; c < r; c++ {
			keys = append(keys, labelSetKeys(ps[pi], sp)...)
			pi++
		}
	}
	for _, sp := range miss {
		for c := 0; c < r; c++ {
			keys = append(keys, labelSetKeys(ps[pi], sp)...)
			pi++
		}
	}
	return keys
}

// ScaffoldFixed places S under prefix P next to a fixed filler key list.
func ScaffoldFixed(name string, filler []string, P string) Scaffold {
	return Scaffold{name, func(S []string) *Scaffolded {
		return mk(name, filler, S, func(q string) string { return P + q })
	}}
}

// SweepFiller returns k groups that each add exactly one inner node BEFORE the
// subtree under first byte 0xff in breadth-first order and at the same level
// (first bytes 0x00..; every group is a node with its own, distinct label set so
// that no short table forms).  With S lifted under 0xff, S's root moves by one
// inner node per k: over k = 0..63 it takes every bit offset modulo 64 in Inners,
// and its leaves every offset in the leaf-indexed arrays.
func SweepFiller(k int) []string {
	var keys []string
	// distinct label sets: pairs (a,b) of high nibbles, then triples
	type ls []int
	var sets []ls
	for a := 0; a < 16; a++ {
		for b := a + 1; b < 16; b++ {
			sets = append(sets, ls{a, b})
		}
	}
	for a := 0; a < 14; a++ {
		sets = append(sets, ls{a, a + 1, a + 2})
	}
	for j := 0; j < k; j++ {
		p := string([]byte{byte(j)})
		for _, n := range sets[j%len(sets)] {
			keys = append(keys, p+string([]byte{byte(n)<<4 | 0x03}))
		}
	}
	return keys
}

// ShiftFiller returns k two-key groups that sort before prefix 0xb0 and add one
// inner node and two leaves each, so S's nodes move through the bit positions
// of all succinct arrays.
func ShiftFiller(k int) []string {
	var keys []string
	for i := 0; i < k; i++ {
		p := string([]byte{0x10, byte(i)})
		keys = append(keys, p+"\x00", p+"\xf0")
	}
	return keys
}
