package h

import (
	"hash/maphash"
	"reflect"
	"unsafe"
)

// MemWatch detects writes to everything reachable from a set of roots cheaply:
// one reflective walk collects the raw memory regions (struct bodies, slice and
// string backing arrays), later checks hash those regions directly.  A changed
// pointer changes the bytes of the region that holds it, so a check that sees a
// change re-walks.  Values the walker cannot flatten (maps, interfaces holding
// non-empty values, channels, funcs) are digested with the reflective Digest.
// protobuf's XXX_sizecache memo fields are cut out of the regions.
type MemWatch struct {
	roots   []interface{}
	regions []region
	slow    []reflect.Value
	seed    maphash.Seed
	last    uint64
}

type region struct {
	p unsafe.Pointer
	n uintptr
}

// NewMemWatch walks the roots (pointers) once.
func NewMemWatch(roots ...interface{}) *MemWatch {
	m := &MemWatch{roots: roots, seed: maphash.MakeSeed()}
	m.rewalk()
	m.last = m.hash()
	return m
}

func (m *MemWatch) rewalk() {
	m.regions = m.regions[:0]
	m.slow = m.slow[:0]
	seen := map[visit]bool{}
	for _, r := range m.roots {
		m.walk(reflect.ValueOf(r), seen, 0)
	}
}

func (m *MemWatch) addRegion(p unsafe.Pointer, n uintptr) {
	if n > 0 && p != nil {
		m.regions = append(m.regions, region{p, n})
	}
}

// structRegions adds the memory of an addressable struct minus XXX_sizecache fields.
func (m *MemWatch) structRegions(v reflect.Value) {
	t := v.Type()
	base := unsafe.Pointer(v.UnsafeAddr())
	start := uintptr(0)
	for i := 0; i < t.NumField(); i++ {
		f := t.Field(i)
		if f.Name == "XXX_sizecache" {
			m.addRegion(unsafe.Pointer(uintptr(base)+start), f.Offset-start)
			start = f.Offset + f.Type.Size()
		}
	}
	m.addRegion(unsafe.Pointer(uintptr(base)+start), t.Size()-start)
}

func hasPointers(t reflect.Type) bool {
	switch t.Kind() {
	case reflect.Ptr, reflect.Slice, reflect.String, reflect.Map, reflect.Interface, reflect.Chan, reflect.Func, reflect.UnsafePointer:
		return true
	case reflect.Array:
		return hasPointers(t.Elem())
	case reflect.Struct:
		for i := 0; i < t.NumField(); i++ {
			if hasPointers(t.Field(i).Type) {
				return true
			}
		}
	}
	return false
}

// walk visits the pointers inside v (v's own bytes are covered by the region of its container).
func (m *MemWatch) walk(v reflect.Value, seen map[visit]bool, depth int) {
	if !v.IsValid() || depth > 100 {
		return
	}
	v = access(v)
	switch v.Kind() {
	case reflect.Ptr:
		if v.IsNil() {
			return
		}
		k := visit{unsafe.Pointer(v.Pointer()), v.Type()}
		if seen[k] {
			return
		}
		seen[k] = true
		e := v.Elem()
		if e.Kind() == reflect.Struct {
			m.structRegions(e)
		} else {
			m.addRegion(unsafe.Pointer(v.Pointer()), e.Type().Size())
		}
		m.walk(e, seen, depth+1)
	case reflect.Struct:
		for i := 0; i < v.NumField(); i++ {
			if v.Type().Field(i).Name == "XXX_sizecache" {
				continue
			}
			if hasPointers(v.Field(i).Type()) {
				m.walk(v.Field(i), seen, depth+1)
			}
		}
	case reflect.Slice:
		if v.IsNil() || v.Cap() == 0 {
			return
		}
		et := v.Type().Elem()
		k := visit{unsafe.Pointer(v.Pointer()), v.Type()}
		if seen[k] {
			return
		}
		seen[k] = true
		if et.Kind() == reflect.Struct && structHasSizecache(et) {
			for i := 0; i < v.Len(); i++ {
				m.structRegions(v.Index(i))
			}
		} else {
			// the whole backing array up to the capacity: a scratch buffer kept at
			// length 0 is written beyond its length
			m.addRegion(unsafe.Pointer(v.Pointer()), uintptr(v.Cap())*et.Size())
		}
		if hasPointers(et) {
			for i := 0; i < v.Len(); i++ {
				m.walk(v.Index(i), seen, depth+1)
			}
		}
	case reflect.Array:
		if hasPointers(v.Type().Elem()) {
			for i := 0; i < v.Len(); i++ {
				m.walk(v.Index(i), seen, depth+1)
			}
		}
	case reflect.String:
		if v.Len() > 0 {
			// string data is immutable by the language; still watched (unsafe writes)
			hdr := (*struct {
				p unsafe.Pointer
				n int
			})(unsafe.Pointer(v.UnsafeAddr()))
			m.addRegion(hdr.p, uintptr(v.Len()))
		}
	case reflect.Interface:
		if v.IsNil() {
			return
		}
		e := v.Elem()
		et := e.Type()
		if et.Size() == 0 {
			return // e.g. encode.I32{}: identity is in the interface header (container region)
		}
		if e.Kind() == reflect.Ptr {
			m.walk(e, seen, depth+1) // the pointer itself is in the header (container region)
			return
		}
		switch e.Kind() {
		case reflect.Map, reflect.Chan, reflect.Func, reflect.UnsafePointer:
			m.slow = append(m.slow, v)
			return
		}
		if !v.CanAddr() || (et.Size() == unsafe.Sizeof(uintptr(0)) && hasPointers(et)) {
			m.slow = append(m.slow, v) // possibly stored directly in the header
			return
		}
		// boxed value: the second header word points to it
		hdr := (*[2]unsafe.Pointer)(unsafe.Pointer(v.UnsafeAddr()))
		k := visit{hdr[1], et}
		if seen[k] {
			return
		}
		seen[k] = true
		ev := reflect.NewAt(et, hdr[1]).Elem()
		if ev.Kind() == reflect.Struct {
			m.structRegions(ev)
		} else {
			m.addRegion(hdr[1], et.Size())
		}
		if hasPointers(et) {
			m.walk(ev, seen, depth+1)
		}
	case reflect.Map, reflect.Chan, reflect.Func, reflect.UnsafePointer:
		m.slow = append(m.slow, v)
	}
}

func structHasSizecache(t reflect.Type) bool {
	_, ok := t.FieldByName("XXX_sizecache")
	return ok
}

func (m *MemWatch) hash() uint64 {
	var hh maphash.Hash
	hh.SetSeed(m.seed)
	for _, r := range m.regions {
		b := (*[1 << 30]byte)(r.p)[:r.n:r.n]
		hh.Write(b)
	}
	x := hh.Sum64()
	for _, s := range m.slow {
		d := &digester{h: fnvNew(), seen: map[visit]bool{}}
		d.walk(s, 0)
		x = x*1099511628211 ^ d.h.Sum64()
	}
	return x
}

// Changed reports whether any watched memory changed since the previous call
// (or since construction); it re-walks after a change so that newly reachable
// memory is watched from then on.
func (m *MemWatch) Changed() bool {
	x := m.hash()
	if x == m.last {
		return false
	}
	m.rewalk()
	m.last = m.hash()
	return true
}

// Regions reports how much memory is watched.
func (m *MemWatch) Regions() (n int, bytes uintptr, slow int) {
	for _, r := range m.regions {
		bytes += r.n
	}
	return len(m.regions), bytes, len(m.slow)
}
