// Package h is the core of the verification harness: bounded spaces,
// reference models, instance variants, the parallel exhaustive driver,
// evidence / replay / known-findings plumbing.
package h

import (
	"sort"
)

// alphabet pool, see DESIGN.md 4.1
var sigmaPool = [][2]byte{
	{0x0f, 0xf0}, {0x10, 0x11}, {0x7f, 0x70}, {0x80, 0x8f},
	{0x01, 0xf1}, {0x61, 0x01}, {0xef, 0xfe}, {0x3f, 0x30},
}

// Sigma4 returns the 4-symbol alphabet selected by seed: {00, ff, a, b}.
func Sigma4(seed int64) []byte {
	if seed < 0 {
		seed = -seed
	}
	p := sigmaPool[int(seed%int64(len(sigmaPool)))]
	s := []byte{0x00, 0xff, p[0], p[1]}
	sort.Slice(s, func(i, j int) bool { return s[i] < s[j] })
	return s
}

// ExtraSymbol returns a symbol m not in sigma used to widen the query universe.
func ExtraSymbol(sigma []byte) byte {
	for _, c := range []byte{0x5a, 0x81, 0x42, 0x9c} {
		ok := true
		for _, s := range sigma {
			if s == c {
				ok = false
			}
		}
		if ok {
			return c
		}
	}
	panic("no extra symbol")
}

// Universe returns all strings over sigma of length <= maxLen in byte order.
func Universe(sigma []byte, maxLen int) []string {
	res := []string{""}
	prev := []string{""}
	for l := 1; l <= maxLen; l++ {
		cur := make([]string, 0, len(prev)*len(sigma))
		for _, p := range prev {
			for _, c := range sigma {
				cur = append(cur, p+string([]byte{c}))
			}
		}
		res = append(res, cur...)
		prev = cur
	}
	sort.Strings(res)
	return res
}

// SubsetCount returns the number of subsets of an n-set of size <= k.
func SubsetCount(n, k int) int64 {
	total := int64(0)
	c := int64(1)
	for i := 0; i <= k && i <= n; i++ {
		total += c
		c = c * int64(n-i) / int64(i+1)
	}
	return total
}

// SubsetIter enumerates index subsets of {0..n-1} in size-then-lexicographic order.
type SubsetIter struct {
	n, k    int
	size    int
	idx     []int
	started bool
	done    bool
}

// NewSubsetIter enumerates all subsets of size minSize..k.
func NewSubsetIter(n, minSize, k int) *SubsetIter {
	if k > n {
		k = n
	}
	it := &SubsetIter{n: n, k: k, size: minSize}
	if minSize > k {
		it.done = true
	}
	return it
}

// Next returns the next subset (shared slice, copy before keeping) or nil.
func (it *SubsetIter) Next() []int {
	if it.done {
		return nil
	}
	if !it.started {
		it.started = true
		it.idx = make([]int, it.size)
		for i := range it.idx {
			it.idx[i] = i
		}
		return it.idx
	}
	// advance lexicographically within current size
	i := it.size - 1
	for i >= 0 && it.idx[i] == it.n-it.size+i {
		i--
	}
	if i < 0 {
		it.size++
		if it.size > it.k {
			it.done = true
			return nil
		}
		it.idx = make([]int, it.size)
		for j := range it.idx {
			it.idx[j] = j
		}
		return it.idx
	}
	it.idx[i]++
	for j := i + 1; j < it.size; j++ {
		it.idx[j] = it.idx[j-1] + 1
	}
	return it.idx
}

// Pick returns u[idx...].
func Pick(u []string, idx []int) []string {
	r := make([]string, len(idx))
	for i, x := range idx {
		r[i] = u[x]
	}
	return r
}

// RunPatternValues turns a run pattern (bit i-1 set => value i differs from
// value i-1) into value ids. zigzag=false: ids increase by one at every change
// (1,1,2,3,3..); zigzag=true: ids alternate between 1 and 2 (1,1,2,1,1..), so
// equal values also occur at non-adjacent positions.
func RunPatternValues(n int, pattern uint64, zigzag bool) []int {
	v := make([]int, n)
	if n == 0 {
		return v
	}
	cur := 1
	v[0] = cur
	for i := 1; i < n; i++ {
		if pattern>>(uint(i-1))&1 == 1 {
			if zigzag {
				cur = 3 - cur
			} else {
				cur++
			}
		}
		v[i] = cur
	}
	return v
}

// QuerySet builds the query universe for keys over sigma with max length L:
// all strings over sigma+{m} of length <= L+1, plus long / extreme strings.
func QuerySet(sigma []byte, L int) []string {
	m := ExtraSymbol(sigma)
	s2 := append(append([]byte{}, sigma...), m)
	sort.Slice(s2, func(i, j int) bool { return s2[i] < s2[j] })
	q := Universe(s2, L+1)
	for _, n := range []int{1, 2, 3, 17, 300} {
		q = append(q, string(repeatByte(0x00, n)), string(repeatByte(0xff, n)))
	}
	return dedupSorted(q)
}

func repeatByte(b byte, n int) []byte {
	r := make([]byte, n)
	for i := range r {
		r[i] = b
	}
	return r
}

func dedupSorted(q []string) []string {
	sort.Strings(q)
	out := q[:0]
	for i, s := range q {
		if i == 0 || s != q[i-1] {
			out = append(out, s)
		}
	}
	return out
}

// PerKeyQueries returns, for the given keys, mutations that are close to them:
// every one-bit flip, every proper prefix, extensions by 00 and ff, key+300 bytes.
func PerKeyQueries(keys []string, limit int) []string {
	var q []string
	for _, k := range keys {
		if len(k) > limit {
			// only mutate head and tail bytes of very long keys
			b := []byte(k)
			for _, pos := range []int{0, len(b) / 2, len(b) - 1} {
				for bit := uint(0); bit < 8; bit++ {
					c := append([]byte{}, b...)
					c[pos] ^= 1 << bit
					q = append(q, string(c))
				}
			}
			q = append(q, k[:len(k)-1], k[:len(k)/2], k+"\x00", k+"\xff")
			continue
		}
		b := []byte(k)
		for pos := range b {
			for bit := uint(0); bit < 8; bit++ {
				c := append([]byte{}, b...)
				c[pos] ^= 1 << bit
				q = append(q, string(c))
			}
		}
		for l := 0; l < len(k); l++ {
			q = append(q, k[:l])
		}
		q = append(q, k+"\x00", k+"\xff", k+string(repeatByte(0x5a, 300)))
	}
	return dedupSorted(q)
}
