package h

import (
	"crypto/sha256"
	"encoding/hex"
	"encoding/json"
	"fmt"
	"hash/fnv"
	"io/ioutil"
	"os"
	"path/filepath"
	"runtime"
	"sort"
	"strings"
	"sync"
	"sync/atomic"
	"syscall"
	"time"
)

// VerifDir is the root of the verification tree (overridable for tests).
var VerifDir = func() string {
	if d := os.Getenv("VERIF_DIR"); d != "" {
		return d
	}
	return "/verif"
}()

// RepoDir is the repository under test (/repo; VERIF_REPO overrides it for
// evaluating changes in scratch worktrees without touching /repo).
var RepoDir = func() string {
	if d := os.Getenv("VERIF_REPO"); d != "" {
		return d
	}
	return "/repo"
}()

// OutDir is where evidence and replay files go (VerifDir unless VERIF_OUT_DIR is set).
var OutDir = func() string {
	if d := os.Getenv("VERIF_OUT_DIR"); d != "" {
		return d
	}
	return VerifDir
}()

// Viol is one property violation together with a self-contained replay payload.
type Viol struct {
	Prop string      `json:"property"`
	Sig  string      `json:"signature"` // stable classification, matched against known_findings.json
	Msg  string      `json:"message"`
	Kind string      `json:"kind"` // replay kind, selects the replayer
	Case interface{} `json:"case"`
	Unit int64       `json:"-"`
}

// Worker holds per-goroutine counters (merged at the end, no locking on the hot path).
type Worker struct {
	progress   int64 // atomic: ticks
	wdSeen     int64 // watchdog only
	wdSince    int64 // watchdog only
	ID         int
	Rev        bool  // second sweep of a trie oracle: keys / queries are asked in reverse order
	Evals      int64 // cases evaluated
	Trans      int64 // API calls whose result was compared
	DontCare   int64 // outcomes classified as unspecified by the statement
	States     []uint64
	Nontrivial []uint64
	// StatesN / NontrivN count cases that are distinct by construction (the
	// enumeration never produces the same case twice) without storing a hash.
	StatesN  int64
	NontrivN int64
	Features map[string]int64
	Outcomes map[string]int64 // distinct observed outcomes classes
	samples  []interface{}
	cur      atomic.Value // string: what the worker is on
	curStart int64        // unix nano
	run      *Run
	Scratch  map[string]interface{}
}

func (w *Worker) Feature(name string)           { w.Features[name]++ }
func (w *Worker) FeatureN(name string, n int64) { w.Features[name] += n }
func (w *Worker) Outcome(name string)           { w.Outcomes[name]++ }

// State records a distinct-state hash; nontrivial says whether it counts as non-trivial.
func (w *Worker) State(hash uint64, nontrivial bool) {
	w.States = append(w.States, hash)
	if nontrivial {
		w.Nontrivial = append(w.Nontrivial, hash)
	}
}

// Sample keeps a few actual cases for the evidence file.
func (w *Worker) Sample(s interface{}) {
	if len(w.samples) < 3 {
		w.samples = append(w.samples, s)
	}
}

// Begin marks the case the worker is on (for the non-termination watchdog).
func (w *Worker) Begin(desc func() string) {
	atomic.AddInt64(&w.progress, 1)
	atomic.StoreInt64(&w.curStart, time.Now().UnixNano())
	w.cur.Store(desc)
}
func (w *Worker) End() { atomic.StoreInt64(&w.curStart, 0) }

// Tick tells the watchdog that the worker is making progress inside its unit
// (called at every case boundary and inside long per-case loops; one atomic add).
func (w *Worker) Tick() { atomic.AddInt64(&w.progress, 1) }

// Report records a violation found at the unit the worker is processing.  It
// returns false when the violation matches a known finding: the caller should
// then go on exploring (a known finding must not hide other violations).
func (w *Worker) Report(v Viol) bool { return w.run.report(v) }

// Stopped tells long per-unit loops to bail out early.
func (w *Worker) Stopped() bool { return w.run.stopped() }

// Run is one invocation of a check.
type Run struct {
	Prop  string
	Tier  string
	Seed  int64
	Level string // evidence level
	Start time.Time
	// Deadline: internal time budget; when hit the run ends with exhaustive=false.
	Deadline     time.Time
	cpuBudget    time.Duration
	hardDeadline time.Time
	NWorkers     int

	Rule            string
	Assumptions     []string
	Bounds          map[string]interface{}
	Extra           map[string]interface{}
	TracesValidated int64

	mu          sync.Mutex
	viols       []Viol
	known       map[string]string // sig -> text of known findings seen
	minUnit     int64
	unitSeq     int64
	workers     []*Worker
	phases      []map[string]interface{}
	exhaustive  bool
	deadlineHit string
	knownDB     []KnownFinding
	infraErr    error
}

// KnownFinding is one entry of known_findings.json.
type KnownFinding struct {
	Property  string `json:"property"`
	Status    string `json:"status"` // known | fixed
	Signature string `json:"signature"`
	Commit    string `json:"commit,omitempty"`
	Text      string `json:"text"`
}

func loadKnown() []KnownFinding {
	path := filepath.Join(VerifDir, "known_findings.json")
	if p := os.Getenv("VERIF_KNOWN_FILE"); p != "" {
		path = p // self-test of the known-findings mechanism only
	}
	b, err := ioutil.ReadFile(path)
	if err != nil {
		return nil
	}
	var f struct {
		Findings []KnownFinding `json:"findings"`
	}
	if err := json.Unmarshal(b, &f); err != nil {
		fmt.Fprintln(os.Stderr, "known_findings.json unreadable:", err)
		return nil
	}
	return f.Findings
}

// noProgressLimit: a worker inside a unit whose tick counter (Tick: every case
// boundary, every scan / build / rendering inside the long per-case loops) has
// not moved for this long is reported as non-terminating.  The longest single
// stretch between two ticks is one library call on the largest input of any
// check (String() of an 8 000-key trie, a build of 71 540 keys: about 1 s on an
// idle machine); the limit leaves a factor of several hundred for a loaded one.
const noProgressLimit = 600 * time.Second

// memGuardBytes: heap size at which the watchdog declares a runaway allocation.
var memGuardBytes = uint64(14) << 30

// peakHeap: largest heap the watchdog saw (reported in the evidence).
var peakHeap uint64

// NewRun creates a run; budget is the internal time budget.
func NewRun(prop, tier string, seed int64, level string, budget time.Duration) *Run {
	r := &Run{
		Prop: prop, Tier: tier, Seed: seed, Level: level,
		Start: time.Now(), NWorkers: runtime.NumCPU(),
		Bounds: map[string]interface{}{}, Extra: map[string]interface{}{},
		known:   map[string]string{},
		minUnit: 1 << 62, exhaustive: true,
		knownDB: loadKnown(),
	}
	if s := os.Getenv("VERIF_BUDGET_S"); s != "" {
		var x int
		fmt.Sscan(s, &x)
		if x > 0 {
			budget = time.Duration(x) * time.Second
		}
	}
	r.Deadline = r.Start.Add(budget)
	if r.NWorkers > 16 {
		r.NWorkers = 16
	}
	// The budget of the enumeration driver is counted in CPU time (budget x
	// workers), so that what a run covers does not depend on how busy the machine
	// is; wall time only caps a run at three budgets.
	r.cpuBudget = budget * time.Duration(r.NWorkers)
	r.hardDeadline = r.Start.Add(3 * budget)
	for i := 0; i < r.NWorkers; i++ {
		r.workers = append(r.workers, r.newWorker(i))
	}
	go r.watchdog()
	return r
}

func (r *Run) newWorker(i int) *Worker {
	return &Worker{ID: i, Features: map[string]int64{}, Outcomes: map[string]int64{}, run: r, Scratch: map[string]interface{}{}}
}

// FirstViolation returns the recorded violation with the smallest unit number
// (nil if none); used by replayers that re-run a whole exploration.
func (r *Run) FirstViolation() *Viol {
	r.mu.Lock()
	defer r.mu.Unlock()
	var first *Viol
	for i := range r.viols {
		if first == nil || r.viols[i].Unit < first.Unit {
			first = &r.viols[i]
		}
	}
	return first
}

// W0 returns worker 0 for single-threaded phases.
func (r *Run) W0() *Worker { return r.workers[0] }

func (r *Run) stopped() bool {
	return atomic.LoadInt64(&r.minUnit) != 1<<62
}

// TimeUp reports whether the internal budget is used up.
func (r *Run) TimeUp() bool {
	if time.Now().After(r.hardDeadline) {
		return true
	}
	var ru syscall.Rusage
	if syscall.Getrusage(syscall.RUSAGE_SELF, &ru) != nil {
		return time.Now().After(r.Deadline)
	}
	cpu := time.Duration(ru.Utime.Nano() + ru.Stime.Nano())
	return cpu > r.cpuBudget
}

// Infra records an infrastructure error (never a violation).
func (r *Run) Infra(err error) {
	r.mu.Lock()
	if r.infraErr == nil {
		r.infraErr = err
	}
	r.mu.Unlock()
}

func (r *Run) report(v Viol) bool {
	v.Prop = r.Prop
	r.mu.Lock()
	defer r.mu.Unlock()
	for _, k := range r.knownDB {
		if k.Status == "known" && k.Property == v.Prop && k.Signature == v.Sig {
			if _, ok := r.known[v.Sig]; !ok {
				r.known[v.Sig] = k.Text
			}
			return false
		}
	}
	r.viols = append(r.viols, v)
	if v.Unit < atomic.LoadInt64(&r.minUnit) {
		atomic.StoreInt64(&r.minUnit, v.Unit)
	}
	return true
}

// Phase runs one exhaustive phase: gen emits units in a deterministic order,
// work evaluates them on 16 workers.  Units after the first violating unit are
// skipped, units before it are always finished, so the reported violation is
// the one with the smallest unit number.
func (r *Run) Phase(name string, gen func(emit func(u interface{}) bool), work func(w *Worker, u interface{})) {
	if r.stopped() {
		return
	}
	type item struct {
		seq int64
		u   interface{}
	}
	t0 := time.Now()
	ch := make(chan []item, 64)
	var wg sync.WaitGroup
	var done int64
	for _, w := range r.workers {
		wg.Add(1)
		go func(w *Worker) {
			defer wg.Done()
			for batch := range ch {
				for _, it := range batch {
					if it.seq > atomic.LoadInt64(&r.minUnit) {
						continue
					}
					w.Scratch["unit"] = it.seq
					func() {
						defer func() {
							if p := recover(); p != nil {
								// a panic in harness code itself is an infrastructure error
								buf := make([]byte, 4096)
								n := runtime.Stack(buf, false)
								r.Infra(fmt.Errorf("harness panic in phase %s: %v\n%s", name, p, buf[:n]))
								atomic.StoreInt64(&r.minUnit, -1)
							}
						}()
						work(w, it.u)
					}()
					w.End()
					atomic.AddInt64(&done, 1)
				}
			}
		}(w)
	}
	complete := true
	var batch []item
	const batchSize = 16
	emitted := int64(0)
	emit := func(u interface{}) bool {
		if r.stopped() {
			return false
		}
		if r.TimeUp() {
			complete = false
			return false
		}
		emitted++
		r.unitSeq++
		batch = append(batch, item{r.unitSeq, u})
		if len(batch) >= batchSize {
			ch <- batch
			batch = nil
		}
		return true
	}
	gen(emit)
	if len(batch) > 0 {
		ch <- batch
	}
	close(ch)
	wg.Wait()
	if !complete {
		r.exhaustive = false
		if r.deadlineHit == "" {
			r.deadlineHit = name
		}
	}
	r.phases = append(r.phases, map[string]interface{}{
		"phase": name, "units": emitted, "complete": complete, "wall_s": round2(time.Since(t0).Seconds()),
	})
}

// Unit returns the number of the unit the worker is processing.
func (w *Worker) Unit() int64 {
	if u, ok := w.Scratch["unit"].(int64); ok {
		return u
	}
	return 0
}

// MarkIncomplete records that a stated space was not finished.
func (r *Run) MarkIncomplete(why string) {
	r.exhaustive = false
	if r.deadlineHit == "" {
		r.deadlineHit = why
	}
}

func (r *Run) watchdog() {
	tick := 0
	for {
		time.Sleep(250 * time.Millisecond)
		// a call of the library that allocates without bound (e.g. a builder that
		// loops on an input it should have refused) must end as a violation with
		// the case on record, not as an out-of-memory crash
		var ms runtime.MemStats
		runtime.ReadMemStats(&ms)
		if ms.HeapAlloc > atomic.LoadUint64(&peakHeap) {
			atomic.StoreUint64(&peakHeap, ms.HeapAlloc)
		}
		if ms.HeapAlloc > memGuardBytes {
			// garbage that the collector has not reclaimed yet is not a runaway
			// allocation: only LIVE memory above the guard counts
			runtime.GC()
			runtime.ReadMemStats(&ms)
		}
		if ms.HeapAlloc > memGuardBytes {
			var descs []string
			for _, w := range r.workers {
				if atomic.LoadInt64(&w.curStart) != 0 {
					if f, ok := w.cur.Load().(func() string); ok {
						descs = append(descs, f())
					}
				}
			}
			fmt.Fprintf(os.Stderr, "watchdog: heap grew to %d MiB; cases in flight: %v\n", ms.HeapAlloc>>20, descs)
			v := Viol{Sig: "unbounded-memory", Msg: fmt.Sprintf("a library call allocates without bound (heap %d MiB); cases in flight: %v", ms.HeapAlloc>>20, descs), Kind: "none", Unit: 0}
			if r.report(v) {
				// the runaway calls keep allocating while this goroutine reports: with
				// several of them in flight the process can reach its address-space
				// limit before Finish has aggregated the workers' tables.  The verdict
				// therefore goes out first, by the shortest path (replay file, minimal
				// evidence, VIOLATION line, exit 1); nothing else is attempted.
				v.Prop = r.Prop
				path := WriteReplay(v)
				os.MkdirAll(filepath.Join(OutDir, "evidence"), 0755)
				ev := fmt.Sprintf("{\"property_id\":%q,\"tier\":%q,\"seed\":%d,\"level\":%q,\"violations\":1,\"wall_s\":%.2f,\"assumptions\":[],\"coverage\":{\"exhaustive\":false,\"stopped_by\":\"live-memory guard\",\"peak_heap_mib\":%d}}\n",
					r.Prop, r.Tier, r.Seed, r.Level, time.Since(r.Start).Seconds(), ms.HeapAlloc>>20)
				ioutil.WriteFile(filepath.Join(OutDir, "evidence", r.Prop+".json"), []byte(ev), 0644)
				fmt.Printf("violation: %s\n", v.Msg)
				fmt.Printf("VIOLATION property=%s replay=%s\n", r.Prop, path)
				os.Exit(1)
			}
			code := r.Finish()
			os.Exit(code)
		}
		tick++
		if tick%20 != 0 {
			continue
		}
		now := time.Now().UnixNano()
		for _, w := range r.workers {
			st := atomic.LoadInt64(&w.curStart)
			// progress-based: the clock restarts whenever the worker's tick counter moved
			if pg := atomic.LoadInt64(&w.progress); pg != w.wdSeen {
				w.wdSeen, w.wdSince = pg, now
			}
			if st != 0 && now-w.wdSince > int64(noProgressLimit) {
				desc := "?"
				if f, ok := w.cur.Load().(func() string); ok {
					desc = f()
				}
				fmt.Fprintf(os.Stderr, "watchdog: a case has been running for > %v: %s\n", noProgressLimit, desc)
				r.report(Viol{Sig: "non-termination", Msg: fmt.Sprintf("a single case (one build and its queries) did not terminate within %v: %s", noProgressLimit, desc), Kind: "none", Unit: 0})
				code := r.Finish()
				os.Exit(code)
			}
		}
	}
}

// cpuSeconds: user + system CPU time of this process so far.
func cpuSeconds() float64 {
	var ru syscall.Rusage
	if syscall.Getrusage(syscall.RUSAGE_SELF, &ru) != nil {
		return 0
	}
	return round2(float64(ru.Utime.Nano()+ru.Stime.Nano()) / 1e9)
}

func round2(f float64) float64 { return float64(int64(f*100+0.5)) / 100 }

func uniqCount(lists [][]uint64) int64 {
	total := 0
	for _, l := range lists {
		total += len(l)
	}
	all := make([]uint64, 0, total)
	for _, l := range lists {
		all = append(all, l...)
	}
	sort.Slice(all, func(i, j int) bool { return all[i] < all[j] })
	n := int64(0)
	for i, x := range all {
		if i == 0 || x != all[i-1] {
			n++
		}
	}
	return n
}

// Hash64 hashes byte slices into a state key.
func Hash64(parts ...[]byte) uint64 {
	f := fnv.New64a()
	for _, p := range parts {
		f.Write(p)
		f.Write([]byte{0xfe, 0x01})
	}
	return f.Sum64()
}

// Finish writes the evidence file, prints VIOLATION / KNOWN-FINDING lines and
// returns the process exit code.
func (r *Run) Finish() int {
	r.mu.Lock()
	defer r.mu.Unlock()

	var evals, trans, dontcare int64
	feats := map[string]int64{}
	outcomes := map[string]int64{}
	var states, nontriv [][]uint64
	var samples []interface{}
	for _, w := range r.workers {
		evals += w.Evals
		trans += w.Trans
		dontcare += w.DontCare
		for k, v := range w.Features {
			feats[k] += v
		}
		for k, v := range w.Outcomes {
			outcomes[k] += v
		}
		states = append(states, w.States)
		nontriv = append(nontriv, w.Nontrivial)
		for _, s := range w.samples {
			if len(samples) < 5 {
				samples = append(samples, s)
			}
		}
	}
	nStates := uniqCount(states)
	nNontriv := uniqCount(nontriv)
	for _, w := range r.workers {
		nStates += w.StatesN
		nNontriv += w.NontrivN
	}

	// choose the violation with the smallest unit number
	var first *Viol
	for i := range r.viols {
		if first == nil || r.viols[i].Unit < first.Unit {
			first = &r.viols[i]
		}
	}

	tracesNote := "model traces replayed against the implementation (see rule)"
	if r.TracesValidated == 0 {
		// the exploration runs directly on the implementation: every explored
		// execution is an implementation trace
		r.TracesValidated = evals
		tracesNote = "exploration runs directly on the real implementation: every evaluation is an implementation trace, there is no separate model to validate"
	}
	cov := map[string]interface{}{
		"traces_note":                   tracesNote,
		"evaluations":                   evals,
		"distinct_nontrivial":           nNontriv,
		"rule":                          r.Rule,
		"samples":                       samples,
		"states":                        nStates,
		"transitions":                   trans,
		"traces_validated_against_impl": r.TracesValidated,
		"exhaustive":                    r.exhaustive && first == nil,
		"dont_care_outcomes":            dontcare,
		"features":                      feats,
		"distinct_outcomes":             outcomes,
		"phases":                        r.phases,
		"bounds":                        r.Bounds,
		"peak_heap_mib":                 atomic.LoadUint64(&peakHeap) >> 20,
		"cpu_s":                         cpuSeconds(),
		"budget":                        fmt.Sprintf("%.0f CPU-seconds (%.0f s x %d workers), wall cap %.0f s", r.cpuBudget.Seconds(), r.cpuBudget.Seconds()/float64(r.NWorkers), r.NWorkers, r.hardDeadline.Sub(r.Start).Seconds()),
	}
	if r.deadlineHit != "" {
		cov["stopped_by_deadline_in"] = r.deadlineHit
	}
	for k, v := range r.Extra {
		cov[k] = v
	}
	var knownSigs []string
	for s := range r.known {
		knownSigs = append(knownSigs, s)
	}
	sort.Strings(knownSigs)
	if len(knownSigs) > 0 {
		cov["known_findings_seen"] = knownSigs
	}
	nviol := 0
	if first != nil {
		nviol = len(r.viols)
	}
	ev := map[string]interface{}{
		"property_id": r.Prop,
		"tier":        r.Tier,
		"seed":        r.Seed,
		"level":       r.Level,
		"coverage":    cov,
		"assumptions": r.Assumptions,
		"wall_s":      round2(time.Since(r.Start).Seconds()),
		"violations":  nviol,
	}
	if r.infraErr != nil {
		fmt.Fprintln(os.Stderr, "INFRASTRUCTURE ERROR:", r.infraErr)
		return 2
	}
	if len(samples) == 0 && first != nil {
		samples = append(samples, map[string]interface{}{"violating_case": first.Case})
		cov["samples"] = samples
	}
	if len(samples) == 0 {
		fmt.Fprintln(os.Stderr, "INFRASTRUCTURE ERROR: no samples recorded (vacuous run)")
		return 2
	}
	os.MkdirAll(filepath.Join(OutDir, "evidence"), 0755)
	b, _ := json.MarshalIndent(ev, "", " ")
	evPath := filepath.Join(OutDir, "evidence", r.Prop+".json")
	if err := ioutil.WriteFile(evPath, append(b, '\n'), 0644); err != nil {
		fmt.Fprintln(os.Stderr, "cannot write evidence:", err)
		return 2
	}
	for _, s := range knownSigs {
		fmt.Printf("KNOWN-FINDING: property=%s %s (%s)\n", r.Prop, s, r.known[s])
	}
	fmt.Printf("%s %s: evaluations=%d states=%d nontrivial=%d transitions=%d exhaustive=%v wall=%.1fs\n",
		r.Prop, r.Tier, evals, nStates, nNontriv, trans, r.exhaustive && first == nil, time.Since(r.Start).Seconds())
	if first != nil {
		path := WriteReplay(*first)
		fmt.Printf("violation: %s\n", first.Msg)
		fmt.Printf("VIOLATION property=%s replay=%s\n", r.Prop, path)
		return 1
	}
	return 0
}

// WriteReplay stores a violation as a self-contained replay file and returns its path.
func WriteReplay(v Viol) string {
	os.MkdirAll(filepath.Join(OutDir, "replays"), 0755)
	b, _ := json.MarshalIndent(v, "", " ")
	sum := sha256.Sum256(b)
	name := fmt.Sprintf("%s-%s-%s.json", v.Prop, sanitize(v.Sig), hex.EncodeToString(sum[:4]))
	path := filepath.Join(OutDir, "replays", name)
	ioutil.WriteFile(path, append(b, '\n'), 0644)
	return path
}

func sanitize(s string) string {
	s = strings.Map(func(r rune) rune {
		if r >= 'a' && r <= 'z' || r >= 'A' && r <= 'Z' || r >= '0' && r <= '9' || r == '-' || r == '_' {
			return r
		}
		return '_'
	}, s)
	if len(s) > 40 {
		s = s[:40]
	}
	return s
}
