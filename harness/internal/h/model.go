package h

import (
	"bytes"
	"encoding/binary"
	"encoding/hex"
	"fmt"
	"math"
	"reflect"
	"sort"
	"strings"

	"github.com/golang/protobuf/proto"
	"github.com/openacid/slim/encode"
	"github.com/openacid/slim/trie"
)

// ---------- options ----------

// Opt4 holds the four option flags; each is -1 (nil pointer), 0 (false) or 1 (true).
type Opt4 struct {
	D, I, L, C int8
}

func tri(v int8) *bool {
	if v < 0 {
		return nil
	}
	b := v == 1
	return &b
}

// ToOpt makes a fresh trie.Opt (fresh bool cells each time).
func (o Opt4) ToOpt() trie.Opt {
	return trie.Opt{DedupValue: tri(o.D), InnerPrefix: tri(o.I), LeafPrefix: tri(o.L), Complete: tri(o.C)}
}

// ToOptMinimal leaves the fields nil that carry their default.
func (o Opt4) ToOptMinimal() trie.Opt {
	m := o
	if m.D == 1 {
		m.D = -1
	}
	if m.I == 0 {
		m.I = -1
	}
	if m.L == 0 {
		m.L = -1
	}
	if m.C == 0 {
		m.C = -1
	}
	return m.ToOpt()
}

// ToOptShared makes a trie.Opt whose fields share one cell per Boolean value.
func (o Opt4) ToOptShared() trie.Opt {
	cells := map[int8]*bool{0: trie.Bool(false), 1: trie.Bool(true)}
	return trie.Opt{DedupValue: cells[o.D], InnerPrefix: cells[o.I], LeafPrefix: cells[o.L], Complete: cells[o.C]}
}

// Norm returns the documented normalisation: dedup (default true), inner, leaf.
func (o Opt4) Norm() (dedup, inner, leaf bool) {
	dedup = o.D != 0
	inner = o.I == 1
	leaf = o.L == 1
	if o.C == 1 {
		inner, leaf = true, true
	}
	return
}

// IsComplete: both prefixes stored after normalisation.
func (o Opt4) IsComplete() bool {
	_, i, l := o.Norm()
	return i && l
}

func (o Opt4) String() string {
	f := func(v int8) string {
		switch v {
		case -1:
			return "n"
		case 0:
			return "f"
		}
		return "t"
	}
	return "D" + f(o.D) + "I" + f(o.I) + "L" + f(o.L) + "C" + f(o.C)
}

// ParseOpt4 parses the String() form.
func ParseOpt4(s string) Opt4 {
	g := func(c byte) int8 {
		switch c {
		case 'n':
			return -1
		case 'f':
			return 0
		}
		return 1
	}
	if len(s) != 8 {
		panic("bad opt " + s)
	}
	return Opt4{g(s[1]), g(s[3]), g(s[5]), g(s[7])}
}

// All16 are the 16 explicit Boolean combinations.
func All16() []Opt4 {
	var r []Opt4
	for d := int8(1); d >= 0; d-- {
		for c := int8(0); c <= 1; c++ {
			for i := int8(0); i <= 1; i++ {
				for l := int8(0); l <= 1; l++ {
					r = append(r, Opt4{d, i, l, c})
				}
			}
		}
	}
	return r
}

// Distinct8 are 8 combinations that are pairwise different after normalisation
// (Complete expressed through the Complete flag).
func Distinct8() []Opt4 {
	return []Opt4{
		{1, 0, 0, 0}, {1, 1, 0, 0}, {1, 0, 1, 0}, {1, 0, 0, 1},
		{0, 0, 0, 0}, {0, 1, 0, 0}, {0, 0, 1, 0}, {0, 0, 0, 1},
	}
}

// All81 are all combinations over {nil,false,true}.
func All81() []Opt4 {
	var r []Opt4
	for d := int8(-1); d <= 1; d++ {
		for i := int8(-1); i <= 1; i++ {
			for l := int8(-1); l <= 1; l++ {
				for c := int8(-1); c <= 1; c++ {
					r = append(r, Opt4{d, i, l, c})
				}
			}
		}
	}
	return r
}

// ---------- encoders ----------

// VarEnc is a harness-side variable-width encoder whose encoding may be empty:
// a value is a string, its encoding the raw bytes.
type VarEnc struct{}

func (VarEnc) Encode(d interface{}) []byte        { return []byte(d.(string)) }
func (VarEnc) Decode(b []byte) (int, interface{}) { return len(b), string(b) }
func (VarEnc) GetSize(d interface{}) int          { return len(d.(string)) }
func (VarEnc) GetEncodedSize(b []byte) int        { return len(b) }

// LenBytes is a harness-side variable-width encoder over []byte values that is
// NOT the identity on them: one length byte, then the payload (fresh slices in
// both directions).
type LenBytes struct{}

func (LenBytes) Encode(d interface{}) []byte {
	b := d.([]byte)
	return append([]byte{byte(len(b))}, b...)
}
func (LenBytes) Decode(b []byte) (int, interface{}) {
	n := int(b[0])
	return 1 + n, append([]byte{}, b[1:1+n]...)
}
func (LenBytes) GetSize(d interface{}) int   { return 1 + len(d.([]byte)) }
func (LenBytes) GetEncodedSize(b []byte) int { return 1 + int(b[0]) }

// defined integer types: a TypeEncoder must hand back exactly these types
type offT uint32
type idT int64

type pairT struct {
	A int16
	B [2]uint8
	C int32
}

// EncSpec names an encoder and knows how to turn value ids into a typed slice.
type EncSpec struct {
	Name string
}

var EncNames = []string{"I32", "String16", "VarEnc", "Dummy", "I8", "I16", "I64", "Int", "U16", "U32", "U64", "Bytes3", "Type"}

// laneTable lists, for a width in bytes, the values whose byte lanes are all in
// {00,01,7f,80,ff}, starting with min, max, -1, 0, 1.
func laneTable(width int) []uint64 {
	lanes := []byte{0x00, 0x01, 0x7f, 0x80, 0xff}
	mask := ^uint64(0)
	if width < 8 {
		mask = (uint64(1) << (8 * uint(width))) - 1
	}
	t := []uint64{uint64(1) << (8*uint(width) - 1), mask >> 1, mask, 0, 1}
	seen := map[uint64]bool{}
	for _, x := range t {
		seen[x] = true
	}
	n := 1
	for i := 0; i < width; i++ {
		n *= len(lanes)
	}
	// a fixed pseudo-shuffled order so that neighbouring ids differ in many lanes
	step := 7
	for n%step == 0 {
		step += 2
	}
	x := 3 % n
	for i := 0; i < n && len(t) < 2048; i++ {
		var u uint64
		y := x
		for b := 0; b < width; b++ {
			u |= uint64(lanes[y%len(lanes)]) << (8 * uint(b))
			y /= len(lanes)
		}
		if !seen[u] {
			seen[u] = true
			t = append(t, u)
		}
		x = (x + step) % n
	}
	return t
}

var laneTables = map[int][]uint64{1: laneTable(1), 2: laneTable(2), 4: laneTable(4), 8: laneTable(8)}

// laneEnc parses names like "I16L:3" -> (width, rotation, true).
func laneEnc(name string) (int, int, bool) {
	i := strings.Index(name, "L:")
	if i < 0 {
		return 0, 0, false
	}
	var w, rot int
	fmt.Sscanf(name[1:i], "%d", &w)
	fmt.Sscanf(name[i+2:], "%d", &rot)
	return w / 8, rot, true
}

func (e EncSpec) Encoder() encode.Encoder {
	if w, _, ok := laneEnc(e.Name); ok {
		if e.Name[0] == 'T' {
			// the same integer widths through a TypeEncoder in its default
			// (little-endian) form; a big-endian encoder of the same type has been
			// made before it, as a program that uses both byte orders would
			var zero interface{}
			switch w {
			case 1:
				zero = int8(0)
			case 2:
				zero = int16(0)
			case 4:
				zero = int32(0)
			default:
				zero = int64(0)
			}
			if _, err := encode.NewTypeEncoderEndian(zero, binary.BigEndian); err != nil {
				panic(err)
			}
			te, err := encode.NewTypeEncoder(zero)
			if err != nil {
				panic(err)
			}
			return te
		}
		switch w {
		case 1:
			return encode.I8{}
		case 2:
			return encode.I16{}
		case 4:
			return encode.I32{}
		case 8:
			return encode.I64{}
		}
	}
	switch e.Name {
	case "I32":
		return encode.I32{}
	case "String16", "String16L":
		return encode.String16{}
	case "VarEnc", "VarEncH", "VarEncH1":
		return VarEnc{}
	case "LenBytes":
		return LenBytes{}
	case "Dummy", "DummyB":
		return encode.Dummy{}
	case "I8":
		return encode.I8{}
	case "I16":
		return encode.I16{}
	case "I64":
		return encode.I64{}
	case "Int":
		return encode.Int{}
	case "U16":
		return encode.U16{}
	case "U32", "NilU32":
		return encode.U32{}
	case "U64":
		return encode.U64{}
	case "Bytes3":
		return encode.Bytes{Size: 3}
	case "Type":
		te, err := encode.NewTypeEncoder(pairT{})
		if err != nil {
			panic(err)
		}
		return te
	case "TypeOff":
		te, err := encode.NewTypeEncoder(offT(0))
		if err != nil {
			panic(err)
		}
		return te
	case "TypeID":
		te, err := encode.NewTypeEncoder(idT(0))
		if err != nil {
			panic(err)
		}
		return te
	case "TypeF64":
		te, err := encode.NewTypeEncoder(float64(0))
		if err != nil {
			panic(err)
		}
		return te
	}
	panic("unknown encoder " + e.Name)
}

// FixedWidth reports the encoded width for fixed-width encoders, -1 for variable.
func (e EncSpec) FixedWidth() int {
	switch e.Name {
	case "String16", "String16L", "VarEnc", "VarEncH", "VarEncH1", "LenBytes":
		return -1
	case "Dummy", "DummyB":
		return 0
	}
	return e.Encoder().GetEncodedSize(nil)
}

// Values maps value ids (>= 0) to the typed slice for this encoder.  Distinct
// ids give distinct encodings (except Dummy), equal ids equal encodings.
// For VarEnc id 0 encodes to the empty slice.
func (e EncSpec) Values(ids []int) interface{} {
	n := len(ids)
	if w, rot, ok := laneEnc(e.Name); ok {
		t := laneTables[w]
		val := func(id int) uint64 {
			if id >= 1000 {
				id = id - 1000 + 16
			}
			return t[(id+rot)%len(t)]
		}
		switch w {
		case 1:
			r := make([]int8, n)
			for i, x := range ids {
				r[i] = int8(val(x))
			}
			return r
		case 2:
			r := make([]int16, n)
			for i, x := range ids {
				r[i] = int16(val(x))
			}
			return r
		case 4:
			r := make([]int32, n)
			for i, x := range ids {
				r[i] = int32(val(x))
			}
			return r
		case 8:
			r := make([]int64, n)
			for i, x := range ids {
				r[i] = int64(val(x))
			}
			return r
		}
	}
	switch e.Name {
	case "I32":
		r := make([]int32, n)
		for i, x := range ids {
			r[i] = int32(x)*0x01010101 - 7
		}
		return r
	case "String16":
		r := make([]string, n)
		for i, x := range ids {
			// variable width: length depends on id
			r[i] = strings.Repeat("v", x%5) + fmt.Sprintf("%d", x)
		}
		return r
	case "String16L":
		// long variable-width values: 0..699 bytes, so the value array's position
		// bitmap spans many words and its select index many entries
		r := make([]string, n)
		for i, x := range ids {
			r[i] = strings.Repeat(string([]byte{byte('a' + x%26)}), (x*37)%700) + fmt.Sprintf("#%d", x)
		}
		return r
	case "VarEnc":
		r := make([]string, n)
		for i, x := range ids {
			if x == 0 {
				r[i] = ""
			} else {
				r[i] = strings.Repeat("w", x%3) + fmt.Sprintf("%d", x)
			}
		}
		return r
	case "VarEncH", "VarEncH1":
		// presence holes in a FIXED-size array: ids of one parity encode to the
		// empty slice, every other id to its own 2-byte string
		r := make([]string, n)
		hole := 0
		if e.Name == "VarEncH1" {
			hole = 1
		}
		for i, x := range ids {
			if x%2 == hole {
				r[i] = ""
			} else {
				r[i] = string([]byte{byte('a' + x%26), byte('A' + x/26%26)})
			}
		}
		return r
	case "Dummy":
		r := make([]int, n)
		for i, x := range ids {
			r[i] = x
		}
		return r
	case "I8":
		r := make([]int8, n)
		for i, x := range ids {
			r[i] = int8(x*37 - 128)
		}
		return r
	case "I16":
		r := make([]int16, n)
		for i, x := range ids {
			r[i] = int16(x*0x0101 - 32768)
		}
		return r
	case "I64":
		r := make([]int64, n)
		for i, x := range ids {
			r[i] = int64(x)*0x0101010101010101 - (1 << 62)
		}
		return r
	case "Int":
		// values with bit 31 set and differing upper words, and negative ones
		r := make([]int, n)
		for i, x := range ids {
			v := int64(x)*0x0101010180 + 0x80000000
			if x%3 == 2 {
				v = -v
			}
			r[i] = int(v)
		}
		return r
	case "U16":
		r := make([]uint16, n)
		for i, x := range ids {
			r[i] = uint16(x*0x0101 + 0x8000)
		}
		return r
	case "U32", "NilU32":
		r := make([]uint32, n)
		for i, x := range ids {
			r[i] = uint32(x)*0x01010101 + 0x80000000
		}
		return r
	case "U64":
		r := make([]uint64, n)
		for i, x := range ids {
			r[i] = uint64(x)*0x0101010101010101 + (1 << 63)
		}
		return r
	case "Bytes3":
		r := make([][]byte, n)
		for i, x := range ids {
			r[i] = []byte{byte(x), byte(x >> 8), byte(0xff - x)}
		}
		return r
	case "LenBytes", "DummyB":
		// 1..3 bytes; the first byte never looks like the length of the rest
		r := make([][]byte, n)
		for i, x := range ids {
			r[i] = []byte{byte(0x80 + x), byte(x >> 7), byte(0xff - x)}[:1+x%3]
		}
		return r
	case "TypeOff":
		r := make([]offT, n)
		for i, x := range ids {
			r[i] = offT(uint32(x)*0x01020304 + 0x80000001)
		}
		return r
	case "TypeID":
		r := make([]idT, n)
		for i, x := range ids {
			r[i] = idT(int64(x)*0x0102030405060708 - (1 << 40))
		}
		return r
	case "TypeF64":
		// floating-point values: equal by == does not mean equal encodings
		// (+0 and -0), and values are compared by their bit patterns
		tab := []float64{1, 0, math.Copysign(0, -1), -1, math.SmallestNonzeroFloat64, math.MaxFloat64, math.Inf(1), math.Inf(-1), 0.1, 1e100}
		r := make([]float64, n)
		for i, x := range ids {
			r[i] = tab[((x%len(tab))+len(tab))%len(tab)]
			if x >= len(tab) {
				r[i] = float64(x) + 0.5
			}
		}
		return r
	case "Type":
		r := make([]pairT, n)
		for i, x := range ids {
			r[i] = pairT{A: int16(-x), B: [2]uint8{uint8(x), 0xff}, C: int32(x) << 20}
		}
		return r
	}
	panic("unknown encoder " + e.Name)
}

// ---------- cases and the reference model ----------

// Case is one trie-building input.
type Case struct {
	Keys   []string
	ValIDs []int // nil => no values
	Enc    string
	Opt    Opt4
	// NoOptArg: call NewSlimTrie without an Opt argument (Opt must be all-nil then).
	NoOptArg bool
	// Minimal: the fields that carry their default (DedupValue=true, the others
	// false) are left nil, as a caller who only sets what it needs would write it
	// (Opt{Complete: trie.Bool(true)}).
	Minimal bool
	// SharedCells: the option fields that carry the same Boolean point to ONE
	// shared cell (no := trie.Bool(false); Opt{DedupValue: no, InnerPrefix: no, ...}).
	SharedCells bool
}

// CaseJSON is the serialised form used in replay files and samples.
type CaseJSON struct {
	KeysHex     []string `json:"keys_hex"`
	ValIDs      []int    `json:"val_ids"`
	Enc         string   `json:"enc"`
	Opt         string   `json:"opt"`
	NoOptArg    bool     `json:"no_opt_arg,omitempty"`
	SharedCells bool     `json:"shared_option_cells,omitempty"`
	Minimal     bool     `json:"minimal_option_form,omitempty"`
}

func (c *Case) JSON() CaseJSON {
	j := CaseJSON{ValIDs: c.ValIDs, Enc: c.Enc, Opt: c.Opt.String(), NoOptArg: c.NoOptArg, SharedCells: c.SharedCells, Minimal: c.Minimal}
	for _, k := range c.Keys {
		j.KeysHex = append(j.KeysHex, hex.EncodeToString([]byte(k)))
	}
	return j
}

func (j CaseJSON) Case() *Case {
	c := &Case{ValIDs: j.ValIDs, Enc: j.Enc, Opt: ParseOpt4(j.Opt), NoOptArg: j.NoOptArg, SharedCells: j.SharedCells, Minimal: j.Minimal}
	for _, k := range j.KeysHex {
		b, err := hex.DecodeString(k)
		if err != nil {
			panic(err)
		}
		c.Keys = append(c.Keys, string(b))
	}
	return c
}

// Brief renders a compact description (long keys are abbreviated).
func (c *Case) Brief() string {
	var ks []string
	for i, k := range c.Keys {
		if i >= 12 {
			ks = append(ks, fmt.Sprintf("...(%d keys)", len(c.Keys)))
			break
		}
		if len(k) > 12 {
			ks = append(ks, fmt.Sprintf("%x..(%dB)", k[:6], len(k)))
		} else {
			ks = append(ks, fmt.Sprintf("%x", k))
		}
	}
	vs := "nil"
	if c.ValIDs != nil {
		if len(c.ValIDs) > 12 {
			vs = fmt.Sprint(c.ValIDs[:12], "...")
		} else {
			vs = fmt.Sprint(c.ValIDs)
		}
	}
	form := ""
	if c.NoOptArg {
		form = " (no Opt argument)"
	} else if c.Minimal {
		form = " (fields at their default left nil)"
	} else if c.SharedCells {
		form = " (option fields share one cell per value)"
	}
	return fmt.Sprintf("keys=[%s] vals=%s enc=%s opt=%s%s", strings.Join(ks, ","), vs, c.Enc, c.Opt, form)
}

// Built is a Case together with its reference model and the fresh instance.
type Built struct {
	*Case
	EncSpec  EncSpec
	Encoder  encode.Encoder
	Values   interface{}   // typed slice or nil
	Encoded  [][]byte      // Encode(v_i) or nil
	Decoded  []interface{} // Decode(Encode(v_i)) or nil
	Kept     []int         // indexes of retained keys
	AllEmpty bool          // values given but every retained encoding is empty
	ST       *trie.SlimTrie
	Err      error
}

// Build runs NewSlimTrie on the case and computes the reference model.
// A panic inside NewSlimTrie is returned as an error with Panicked=true.
func Build(c *Case) (b *Built, panicked interface{}) {
	b = &Built{Case: c, EncSpec: EncSpec{c.Enc}}
	b.Encoder = b.EncSpec.Encoder()
	if c.ValIDs != nil {
		b.Values = b.EncSpec.Values(c.ValIDs)
		rv := reflect.ValueOf(b.Values)
		for i := 0; i < rv.Len(); i++ {
			v := rv.Index(i).Interface()
			e := b.Encoder.Encode(v)
			e = append([]byte{}, e...)
			b.Encoded = append(b.Encoded, e)
			// expected value = the value that was supplied.  Only Dummy is lossy by
			// design (it stores nothing and decodes to nil); Bytes returns a slice of
			// the stored bytes, compared by content.
			var d interface{} = v
			if c.Enc == "Dummy" || c.Enc == "DummyB" {
				_, d = b.Encoder.Decode(e)
			}
			if bs, ok := v.([]byte); ok {
				d = append([]byte{}, bs...)
			}
			b.Decoded = append(b.Decoded, d)
		}
	}
	dedup, _, _ := c.Opt.Norm()
	for i := range c.Keys {
		if dedup && b.Encoded != nil && i > 0 && bytes.Equal(b.Encoded[i], b.Encoded[i-1]) {
			continue
		}
		b.Kept = append(b.Kept, i)
	}
	if b.Encoded != nil {
		b.AllEmpty = true
		for _, i := range b.Kept {
			if len(b.Encoded[i]) > 0 {
				b.AllEmpty = false
			}
		}
	}
	func() {
		defer func() {
			if r := recover(); r != nil {
				panicked = r
			}
		}()
		keys := append([]string{}, c.Keys...)
		enc := b.Encoder
		if c.Enc == "NilU32" {
			// "leave the encoder nil if the values are of a fixed-size type": the
			// library derives the encoder from the value slice
			enc = nil
		}
		if c.NoOptArg {
			b.ST, b.Err = trie.NewSlimTrie(enc, keys, b.Values)
		} else if c.Minimal {
			b.ST, b.Err = trie.NewSlimTrie(enc, keys, b.Values, c.Opt.ToOptMinimal())
		} else if c.SharedCells {
			b.ST, b.Err = trie.NewSlimTrie(enc, keys, b.Values, c.Opt.ToOptShared())
		} else {
			b.ST, b.Err = trie.NewSlimTrie(enc, keys, b.Values, c.Opt.ToOpt())
		}
		// the slices passed to the builder are the caller's again: they are
		// overwritten at once (the key slice, every value, the bytes of []byte
		// values); the reference model keeps copies of its own
		for i := range keys {
			keys[i] = "\xa5overwritten-by-the-caller"
		}
		if b.Values != nil {
			rv := reflect.ValueOf(b.Values)
			for i := 0; i < rv.Len(); i++ {
				e := rv.Index(i)
				if e.Kind() == reflect.Slice && e.Type().Elem().Kind() == reflect.Uint8 {
					bs := e.Bytes()
					for j := range bs {
						bs[j] = 0x5a
					}
				}
				if e.CanSet() {
					e.Set(reflect.Zero(e.Type()))
				}
			}
		}
	}()
	return b, panicked
}

// WantVal is the value Get must report for input key i (which must be retained,
// or for RangeGet any key): the supplied v_i; nil when no values were given
// or when the value array is not materialised (all encodings empty).
func (b *Built) WantVal(i int) interface{} {
	if b.Decoded == nil || b.AllEmpty {
		return nil
	}
	return b.Decoded[i]
}

// Match reports whether got is an acceptable value for input key i (i < 0: no
// key, got must be nil).  When no value array is materialised (every retained
// encoding is empty) both nil and Decode(empty) are accepted: the statement does
// not fix which of the two a zero-width value reads back as.
func (b *Built) Match(i int, got interface{}) bool {
	if i < 0 || b.Decoded == nil {
		return got == nil
	}
	if b.AllEmpty && got == nil {
		return true
	}
	if f, ok := got.(float64); ok {
		if w, ok := b.Decoded[i].(float64); ok {
			return math.Float64bits(f) == math.Float64bits(w)
		}
	}
	return reflect.DeepEqual(got, b.Decoded[i])
}

// KeptKeys returns the retained keys in order.
func (b *Built) KeptKeys() []string {
	r := make([]string, len(b.Kept))
	for i, x := range b.Kept {
		r[i] = b.Keys[x]
	}
	return r
}

// ---------- instance variants ----------

// Instance kinds.
const (
	InstFresh = "fresh"
	InstUnm   = "unmarshal"
	InstProto = "proto"
	// InstUnmUsed: the stream is loaded by a direct st.Unmarshal (no Reset) into a
	// receiver that holds ANOTHER, larger trie and has answered every kind of read
	// (so that anything a read or a build derives lazily exists and is stale).
	InstUnmUsed = "unmarshal-into-used"
)

var donorKeys = func() []string {
	var ks []string
	for _, a := range []byte("abc") {
		for _, b := range []byte("012") {
			ks = append(ks, "donor/"+string([]byte{a, b}))
		}
	}
	ks = append(ks, "donor/a0/long-tail", "e", "e\xff\xff")
	sort.Strings(ks)
	return ks
}()

// UsedReceiver builds the donor trie (Complete mode, 12 keys with a root prefix,
// values of the given encoder) and asks it every kind of read.
func UsedReceiver(encName string) *trie.SlimTrie {
	ids := make([]int, len(donorKeys))
	for i := range ids {
		ids[i] = 1 + i/2
	}
	c := &Case{Keys: donorKeys, ValIDs: ids, Enc: encName, Opt: Opt4{D: 1, I: 0, L: 0, C: 1}}
	b, p := Build(c)
	if p != nil || b.Err != nil || b.ST == nil {
		// an encoder that cannot carry the donor's values: value-less donor
		c.ValIDs = nil
		b, p = Build(c)
		if p != nil || b.Err != nil || b.ST == nil {
			st, _ := trie.NewSlimTrie(b.Encoder, nil, nil)
			return st
		}
	}
	st := b.ST
	Safely(func() {
		for _, q := range []string{"", "donor/a0", "donor/a00", "donor/b1", "donor/b2\x00", "donor/c2", "donor/zz", "d", "e", "e\xff", "e\xff\xff", "f", "\xff"} {
			st.Get(q)
			st.GetID(q)
			st.RangeGet(q)
			st.Search(q)
		}
		st.Stat()
		_ = st.String()
		st.Marshal()
		proto.Size(st)
		n := 0
		st.ScanFrom("donor/c", true, true, func(k, v []byte) bool { n++; return n < 9 })
		st.ScanFromTo("donor/b2", false, "e\xff", true, true, func(k, v []byte) bool { return true })
		it := st.NewIter("donor/c", true, true)
		for i := 0; i < 4; i++ {
			it()
		}
	})
	for _, f := range []func(){func() { st.GetI8("donor/a1") }, func() { st.GetI16("donor/a1") }, func() { st.GetI32("donor/a1") }, func() { st.GetI64("donor/a1") }} {
		Safely(f)
	}
	return st
}

// LoadUnmarshal = Unmarshal(Marshal(st)) into a new empty instance.
func LoadUnmarshal(st *trie.SlimTrie, enc encode.Encoder) (*trie.SlimTrie, []byte, error) {
	buf, err := st.Marshal()
	if err != nil {
		return nil, nil, err
	}
	st2, err := trie.NewSlimTrie(enc, nil, nil)
	if err != nil {
		return nil, buf, err
	}
	err = st2.Unmarshal(buf)
	return st2, buf, err
}

// LoadProto = proto.Unmarshal(proto.Marshal(st)).
func LoadProto(st *trie.SlimTrie, enc encode.Encoder) (*trie.SlimTrie, []byte, error) {
	buf, err := proto.Marshal(st)
	if err != nil {
		return nil, nil, err
	}
	st2, err := trie.NewSlimTrie(enc, nil, nil)
	if err != nil {
		return nil, buf, err
	}
	err = proto.Unmarshal(buf, st2)
	return st2, buf, err
}

// Instances returns the requested instance variants of a built trie.
func (b *Built) Instances(kinds []string) (map[string]*trie.SlimTrie, error) {
	r := map[string]*trie.SlimTrie{}
	for _, k := range kinds {
		switch k {
		case InstFresh:
			r[k] = b.ST
		case InstUnm:
			st, _, err := LoadUnmarshal(b.ST, b.Encoder)
			if err != nil {
				return nil, fmt.Errorf("Unmarshal(Marshal()) failed: %v", err)
			}
			r[k] = st
		case InstProto:
			// into a used receiver: proto.Unmarshal resets the message first
			buf, err := proto.Marshal(b.ST)
			if err != nil {
				return nil, fmt.Errorf("proto.Marshal failed: %v", err)
			}
			st := UsedReceiver(b.Case.Enc)
			if err := proto.Unmarshal(buf, st); err != nil {
				return nil, fmt.Errorf("proto.Unmarshal(proto.Marshal()) into a used receiver failed: %v", err)
			}
			r[k] = st
		case InstUnmUsed:
			buf, err := b.ST.Marshal()
			if err != nil {
				return nil, fmt.Errorf("Marshal failed: %v", err)
			}
			st := UsedReceiver(b.Case.Enc)
			if err := st.Unmarshal(buf); err != nil {
				return nil, fmt.Errorf("Unmarshal(Marshal()) into a used receiver failed: %v", err)
			}
			r[k] = st
		default:
			panic("unknown instance kind " + k)
		}
	}
	return r, nil
}

// DecodeSlim decodes the exported protobuf message out of marshaled bytes; used
// only to measure structural coverage.
func DecodeSlim(stream []byte) *trie.Slim {
	s := &trie.Slim{}
	if len(stream) <= 32 {
		return s
	}
	if err := proto.Unmarshal(stream[32:], s); err != nil {
		return s
	}
	return s
}

// ---------- sorted-list reference helpers ----------

// SearchRef returns indexes (into kept) of max{r<q}, q itself, min{r>q}; -1 if none.
func SearchRef(kept []string, q string) (l, eq, r int) {
	i := sort.SearchStrings(kept, q) // first >= q
	l, eq, r = i-1, -1, -1
	if i < len(kept) && kept[i] == q {
		eq = i
		if i+1 < len(kept) {
			r = i + 1
		}
	} else if i < len(kept) {
		r = i
	}
	return
}

// Safely runs f and converts a panic into a non-nil return.
func Safely(f func()) (p interface{}) {
	defer func() {
		if r := recover(); r != nil {
			p = r
		}
	}()
	f()
	return nil
}
