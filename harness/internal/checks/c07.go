package checks

import (
	"fmt"
	"sort"
	"strings"
	"time"

	"github.com/golang/protobuf/proto"
	"github.com/openacid/errors"
	"github.com/openacid/slim/encode"
	"github.com/openacid/slim/trie"
	"verif/internal/h"
)

func init() {
	register(&Check{ID: "C07", Level: "model_checking", Run: runC07, QuickBudget: 400 * time.Second, ThoroughBudget: 45 * time.Minute})
	Replayers["c07"] = replayC07
}

// compatibleRef is the reference recogniser of the statement.
func compatibleRef(ver string, current string) bool {
	switch ver {
	case "1.0.0", "0.5.8", "0.5.9", "0.5.10", "0.5.11":
		return true
	}
	return ver == current
}

// prior instance states before the rejected load
var c07Priors = []string{"new", "built", "loaded"}

func c07Prior(kind string) *trie.SlimTrie {
	switch kind {
	case "built":
		return startInstance("built")
	case "loaded":
		src := startInstance("built")
		buf, _ := src.Marshal()
		st := startInstance("new")
		if err := st.Unmarshal(buf); err != nil {
			panic(err)
		}
		return st
	}
	return startInstance("new")
}

// emptyAfterReject checks that the instance answers lookups and scans as an empty trie.
func emptyAfterReject(w *h.Worker, st *trie.SlimTrie, qs []string) string {
	var msg string
	// the other read APIs must at least not panic on the instance a rejected load
	// leaves behind (what Stat reports then is not specified)
	if p := h.Safely(func() { _ = st.String(); st.Stat(); st.Marshal() }); p != nil {
		return fmt.Sprintf("after the rejected load, String / Stat / Marshal panics: %v", p)
	}
	if p := h.Safely(func() {
		for _, q := range qs {
			v, f := st.Get(q)
			id := st.GetID(q)
			rv, rf := st.RangeGet(q)
			l, e, r := st.Search(q)
			x, xf := int32(0), false
			w.Trans += 4
			if f || v != nil || id != -1 || rf || rv != nil || l != nil || e != nil || r != nil || xf || x != 0 {
				msg = fmt.Sprintf("after the rejected load, query %s is answered Get=(%v,%v) GetID=%d RangeGet=(%v,%v) Search=(%v,%v,%v)", briefQ(q), v, f, id, rv, rf, l, e, r)
				return
			}
		}
		for _, s := range []string{"", "\x00", "\x10\x01", "\xff"} {
			n := 0
			st.ScanFrom(s, true, true, func(k, v []byte) bool { n++; return n < 5 })
			nxt := st.NewIter(s, true, false)
			k, _ := nxt()
			w.Trans += 2
			if n != 0 || k != nil {
				msg = fmt.Sprintf("after the rejected load, a scan from %s yields entries", briefQ(s))
				return
			}
		}
	}); p != nil {
		return fmt.Sprintf("after the rejected load, a lookup or scan panics: %v", p)
	}
	return msg
}

type c07Stream struct {
	Name   string
	Bytes  []byte
	Bounds []int // inner section boundaries (legacy three-section streams)
}

type c07Case struct {
	Stream   string `json:"stream,omitempty"`
	StreamHx string `json:"stream_hex,omitempty"`
	Cut      int    `json:"cut"`
	Version  string `json:"version_hex,omitempty"`
	Prior    string `json:"prior"`
	ViaProto bool   `json:"via_proto"`
	Mode     string `json:"mode"` // cut | version
}

func loadInto(st *trie.SlimTrie, buf []byte, viaProto bool) (err error, p interface{}) {
	p = h.Safely(func() {
		if viaProto {
			err = proto.Unmarshal(buf, st)
		} else {
			err = st.Unmarshal(buf)
		}
	})
	return
}

// evalCut: a strict prefix must be rejected with an error, no panic, and leave an empty instance.
func evalCut(w *h.Worker, stream []byte, cut int, prior string, viaProto bool, qs []string) *h.Viol {
	st := c07Prior(prior)
	buf := append([]byte{}, stream[:cut]...)
	err, p := loadInto(st, buf, viaProto)
	w.Trans++
	if p != nil {
		return &h.Viol{Sig: "cut-panic", Msg: fmt.Sprintf("loading a stream cut at byte %d of %d panicked: %v", cut, len(stream), p)}
	}
	if err == nil {
		return &h.Viol{Sig: "cut-accepted", Msg: fmt.Sprintf("a stream cut at byte %d of %d was loaded without error", cut, len(stream))}
	}
	if msg := emptyAfterReject(w, st, qs); msg != "" {
		return &h.Viol{Sig: "half-loaded-after-cut", Msg: fmt.Sprintf("stream cut at byte %d of %d: %s", cut, len(stream), msg)}
	}
	return nil
}

// evalVersion: an incompatible header version must be rejected with ErrIncompatible.
func evalVersion(w *h.Worker, body []byte, ver string, prior string, viaProto bool, qs []string, current string, ownVersion string) *h.Viol {
	st := c07Prior(prior)
	buf := append([]byte{}, body...)
	var vb [16]byte
	copy(vb[:], ver)
	copy(buf[:16], vb[:])
	err, p := loadInto(st, buf, viaProto)
	w.Trans++
	if compatibleRef(ver, current) {
		// a compatible version in front of a body of another layout is not decided
		// by the statement; in front of its own body it must load
		if ver == ownVersion {
			if p != nil || err != nil {
				return &h.Viol{Sig: "compatible-rejected", Msg: fmt.Sprintf("a stream with its own compatible version %q was not loaded: %v %v", ver, err, p)}
			}
			w.Outcome("compatible-loaded")
		} else {
			w.DontCare++
		}
		return nil
	}
	if p != nil {
		return &h.Viol{Sig: "version-panic", Msg: fmt.Sprintf("loading a stream with header version %q panicked: %v", ver, p)}
	}
	if err == nil {
		return &h.Viol{Sig: "incompatible-accepted", Msg: fmt.Sprintf("a stream with incompatible header version %q was loaded", ver)}
	}
	if errors.Cause(err) != trie.ErrIncompatible {
		return &h.Viol{Sig: "wrong-error", Msg: fmt.Sprintf("header version %q rejected with %v, want ErrIncompatible", ver, err)}
	}
	w.Outcome("incompatible-rejected")
	if msg := emptyAfterReject(w, st, qs); msg != "" {
		return &h.Viol{Sig: "half-loaded-after-version", Msg: fmt.Sprintf("header version %q: %s", ver, msg)}
	}
	return nil
}

// c07Streams: valid streams of every layout.
func c07Streams(sp *spaceCtx, thorough bool) []c07Stream {
	var out []c07Stream
	k := 2
	sets := [][]string{}
	it := h.NewSubsetIter(len(sp.u2), 0, k)
	for idx := it.Next(); idx != nil; idx = it.Next() {
		sets = append(sets, h.Pick(sp.u2, idx))
	}
	// two scaffolded larger ones
	sets = append(sets, h.ScaffoldBigRoot(sp.sigma, "in").Apply([]string{"", "\xff"}).Keys)
	if f := shortFiller(sp.sigma, 2, true); f != nil {
		sets = append(sets, uniq(sortedCopy(append([]string{"\xb0", "\xb0\x00"}, f...))))
	}
	modes := h.Distinct8()
	for si, keys := range sets {
		for _, o := range modes {
			for _, withVals := range []bool{true, false} {
				if !thorough && si%3 != 0 && !(o.C == 1 || (o.I == 0 && o.L == 0)) {
					continue
				}
				if !withVals && o.D == 0 {
					continue
				}
				c := &h.Case{Keys: keys, Enc: "I32", Opt: o}
				if withVals {
					c.ValIDs = make([]int, len(keys))
					for i := range keys {
						c.ValIDs[i] = 1 + i/2
					}
				}
				b, p := h.Build(c)
				if p != nil || b.Err != nil {
					continue
				}
				buf, err := b.ST.Marshal()
				if err != nil {
					continue
				}
				out = append(out, c07Stream{Name: fmt.Sprintf("current:%s:vals=%v:set%d", o, withVals, si), Bytes: buf})
			}
		}
		for _, l := range legacyLayouts() {
			if !thorough && si%3 != 1 && len(keys) > 1 {
				continue
			}
			buf := l.write(keys, legacyVals(len(keys)))
			out = append(out, c07Stream{Name: fmt.Sprintf("%s:set%d", l.Name, si), Bytes: buf})
		}
	}
	return out
}

// versionStrings enumerates the version space of the statement.
func versionStrings(thorough bool) []string {
	m := map[string]bool{}
	maxZ := 20
	for x := 0; x <= 2; x++ {
		for y := 0; y <= 9; y++ {
			for z := 0; z <= maxZ; z++ {
				m[fmt.Sprintf("%d.%d.%d", x, y, z)] = true
			}
		}
	}
	alpha := []byte{'0', '1', '5', '.', '-', 'a'}
	maxL := 4
	if thorough {
		maxL = 5
	}
	var rec func(cur []byte)
	rec = func(cur []byte) {
		m[string(cur)] = true
		if len(cur) == maxL {
			return
		}
		for _, c := range alpha {
			rec(append(cur, c))
		}
	}
	rec(nil)
	for _, s := range []string{
		"0.2.0", "0.3.0", "0.4.0", "0.4.3", "0.5.0", "0.5.1", "0.5.2", "0.5.3", "0.5.4", "0.5.5", "0.5.6", "0.5.7", "0.5.8", "0.5.9", "0.5.10", "0.5.11", "0.5.12",
		"0.5.13", "0.5.14", "0.5.20", "0.5.100", "0.6.0", "0.6.1", "0.10.0", "1.0.1", "1.0.10", "1.1.0", "2.0.0", "10.0.0", "1.0.00",
		"0.5.12-rc1", "0.5.12-alpha.1", "1.0.0-rc", "1.0.0-0", "0.5.10-beta", "0.5.8-", "v0.5.12", "v1.0.0", "V1.0.0", "01.0.0", "1.00.0", "1.0.01", "00.5.8", "0.05.8",
		" 1.0.0", "1.0.0 ", "1.0", "1", "", "1.0.0.0", "1..0", ".1.0.0", "1.0.0.", "==1.0.0", ">0.5.0", "*", "x.y.z", "1.0.x", "latest",
		"0123456789abcdef", "1.0.0\x00\x00\x00\x00\x00\x00\x00\x00\x00\x00\x01", "1.0.0\x001", "\x001.0.0", "0.5.12\x00\x00\x00\x00\x00\x00\x00\x00\x00x",
		"9999999999.0.0", "1.0.99999999999", "18446744073709551616.0.0", "0.5.12345678901", "-1.0.0", "1.-1.0", "１.0.0",
		"0.5.1", "0.5.", "0.5", "0.5.8.1", "0.5.9a", "0.5.1a", "0.5.10.", "0.5.11-", "0.5.011", "0.5.12 ", "0.5.1 2",
	} {
		if len(s) <= 16 {
			m[s] = true
		}
	}
	var out []string
	for s := range m {
		if strings.Contains(s, "+") {
			continue // build metadata: equal precedence, not decided by the statement
		}
		out = append(out, s)
	}
	sort.Strings(out)
	return out
}

func runC07(r *h.Run) {
	thorough := r.Tier == "thorough"
	sp := newSpaceCtx(r.Seed)
	if !conformLegacy(r) {
		return
	}
	streams := c07Streams(sp, thorough)
	vers := versionStrings(thorough)
	current := (&trie.SlimTrie{}).GetVersion()
	r.Bounds["streams"] = len(streams)
	r.Bounds["version_strings"] = len(vers)
	r.Bounds["current_version"] = current
	totalCuts := 0
	for _, s := range streams {
		totalCuts += len(s.Bytes)
	}
	r.Bounds["cut_points"] = totalCuts
	r.Rule = "crash points: valid streams of every layout (current format in the 8 normalised modes with and without values, every legacy writer model, incl. the empty stream) for key sets of <= 2 keys over U(Sigma4,2) plus two scaffolded larger sets (257-bit root; short table), EVERY cut 0..len-1 (three-section legacy streams are thereby cut inside each header and body and at both section boundaries) x prior instance state {never used, built Complete with data, loaded} x {Unmarshal, proto.Unmarshal on the small streams}; versions: every X.Y.Z with X<=2,Y<=9,Z<=20, every string of length <= 4 (thorough 5) over {0,1,5,.,-,a}, released / successor / pre-release / malformed / non-terminated / embedded-NUL strings, each in front of a current-format and a legacy body; oracle: strict prefix => non-nil error and no panic; incompatible (reference recogniser: exactly 1.0.0, 0.5.8, 0.5.9, 0.5.10, 0.5.11 or the current version) => ErrIncompatible; after each rejected load every lookup of Q reports not-found/nil and every scan yields nothing. Distinct by construction; non-trivial = stream with at least 2 keys / version string of length >= 2"
	r.Assumptions = []string{"version strings with build metadata (+...) are excluded: semver precedence makes them equal to a compatible version", "a compatible version in front of a body of another layout is not decided by the statement (counted as don't-care)", "Stat after a rejected load is unspecified"}
	qs := sp.q2
	// cuts
	type cu struct {
		si      int
		lo, hi  int
		prior   string
		viaProt bool
	}
	r.Phase("cuts", func(emit func(u interface{}) bool) {
		for si, s := range streams {
			for pi, prior := range c07Priors {
				if !thorough && pi != si%3 && len(s.Bytes) > 400 {
					continue // quick: long streams rotate through the prior states
				}
				for _, vp := range []bool{false, true} {
					if vp && (len(s.Bytes) > 150 || (!thorough && si%4 != 0)) {
						continue
					}
					const chunk = 64
					for lo := 0; lo < len(s.Bytes); lo += chunk {
						hi := lo + chunk
						if hi > len(s.Bytes) {
							hi = len(s.Bytes)
						}
						if !emit(cu{si, lo, hi, prior, vp}) {
							return
						}
					}
				}
			}
		}
	}, func(w *h.Worker, x interface{}) {
		u := x.(cu)
		s := streams[u.si]
		w.Begin(func() string { return fmt.Sprintf("C07 cuts %s %d..%d", s.Name, u.lo, u.hi) })
		for cut := u.lo; cut < u.hi; cut++ {
			w.Evals++
			w.Tick()
			w.StatesN++
			if len(s.Bytes) > 64 {
				w.NontrivN++
			}
			if v := evalCut(w, s.Bytes, cut, u.prior, u.viaProt, qs); v != nil {
				v.Msg += fmt.Sprintf(" | stream %s prior=%s viaProto=%v", s.Name, u.prior, u.viaProt)
				v.Kind, v.Case, v.Unit = "c07", c07Case{Mode: "cut", StreamHx: fmt.Sprintf("%x", s.Bytes), Stream: s.Name, Cut: cut, Prior: u.prior, ViaProto: u.viaProt}, w.Unit()
				w.Report(*v)
				return
			}
		}
		if u.lo == 0 {
			w.Sample(map[string]interface{}{"stream": s.Name, "len": len(s.Bytes), "cuts": "0..len-1", "prior": u.prior})
		}
		w.Feature("cut_chunks_" + strings.SplitN(s.Name, ":", 2)[0])
	})
	// versions
	bodies := []c07Stream{}
	for _, s := range streams {
		if strings.HasPrefix(s.Name, "current:DtIfLfCt:vals=true") && len(s.Bytes) > 60 && len(bodies) == 0 {
			bodies = append(bodies, s)
		}
	}
	for _, want := range []string{"old-0.5.9", "old-0.5.3", "allpref-0.5.10", "old-0.5.8"} {
		for _, s := range streams {
			if strings.HasPrefix(s.Name, want) && len(s.Bytes) > 100 {
				bodies = append(bodies, s)
				break
			}
		}
	}
	own := func(s c07Stream) string { return strings.TrimRight(string(s.Bytes[:16]), "\x00") }
	type vu struct {
		bi     int
		lo, hi int
	}
	r.Phase("versions", func(emit func(u interface{}) bool) {
		for bi := range bodies {
			for lo := 0; lo < len(vers); lo += 64 {
				hi := lo + 64
				if hi > len(vers) {
					hi = len(vers)
				}
				if !emit(vu{bi, lo, hi}) {
					return
				}
			}
		}
	}, func(w *h.Worker, x interface{}) {
		u := x.(vu)
		body := bodies[u.bi]
		w.Begin(func() string { return fmt.Sprintf("C07 versions %d..%d on %s", u.lo, u.hi, body.Name) })
		for vi := u.lo; vi < u.hi; vi++ {
			ver := vers[vi]
			prior := c07Priors[vi%3]
			viaProto := vi%5 == 0
			w.Evals++
			w.Tick()
			w.StatesN++
			if len(ver) >= 2 {
				w.NontrivN++
			}
			if v := evalVersion(w, body.Bytes, ver, prior, viaProto, qs, current, own(body)); v != nil {
				v.Msg += fmt.Sprintf(" | body %s prior=%s viaProto=%v", body.Name, prior, viaProto)
				v.Kind, v.Case, v.Unit = "c07", c07Case{Mode: "version", StreamHx: fmt.Sprintf("%x", body.Bytes), Stream: body.Name, Version: fmt.Sprintf("%x", ver), Prior: prior, ViaProto: viaProto}, w.Unit()
				w.Report(*v)
				return
			}
		}
		if u.lo == 0 {
			w.Sample(map[string]interface{}{"body": body.Name, "versions": []string{vers[1], vers[len(vers)/2], vers[len(vers)-1]}})
		}
	})
}

func replayC07(prop string, raw []byte) *h.Viol {
	var cj c07Case
	if err := jsonUnmarshal(raw, &cj); err != nil {
		return &h.Viol{Msg: err.Error()}
	}
	var stream []byte
	fmt.Sscanf(cj.StreamHx, "%x", &stream)
	w := h.NewRun(prop, "quick", 0, "model_checking", 0).W0()
	qs := newSpaceCtx(0).q2
	if cj.Mode == "cut" {
		return evalCut(w, stream, cj.Cut, cj.Prior, cj.ViaProto, qs)
	}
	var ver []byte
	fmt.Sscanf(cj.Version, "%x", &ver)
	current := (&trie.SlimTrie{}).GetVersion()
	return evalVersion(w, stream, string(ver), cj.Prior, cj.ViaProto, qs, current, strings.TrimRight(string(stream[:16]), "\x00"))
}

var _ = encode.I32{}
