package checks

import "encoding/json"

func jsonUnmarshal(b []byte, v interface{}) error { return json.Unmarshal(b, v) }
