package checks

import (
	"fmt"
	"sort"
	"strings"

	"github.com/openacid/slim/encode"
	"github.com/openacid/slim/trie"
	"github.com/openacid/testkeys"
	"verif/internal/h"
	"verif/internal/legacy"
)

// profile selects the dimensions a property needs from the shared enumeration.
type profile struct {
	opts      []h.Opt4 // nil => all 16
	encsMain  []string // encoders used everywhere (default I32)
	encsSmall []string // additional encoders on the small spaces only
	insts     []string
	needQs    bool // property asks absent queries
	nilVals   bool
	zig       bool
	// sizes
	quickIDk, quickScafK       int
	thoroughIDk, thoroughScafK int
	u85k                       int // K(U85,k) in thorough (0 = off)
	maxListKeys                int // key lists longer than this are left out (0 = no limit); C19: String() is quadratic
	shiftScafK                 int // thorough: the 130 shift scaffolds range over K(U21,shiftScafK) (0 = 2)
	u85k4                      bool
	many                       bool
	manyQuick                  bool
	shortQuick, shortThorough  []int
	noOptArg                   bool
	fillerPairs                bool
	scaffoldFilter             func(name string) bool
	manyLate                   bool // the large families run after the subset spaces (checks whose oracle is heavy on large tries)
	revSweep                   bool // every oracle a second time on the same instance in reverse order (lists <= revMaxQs queries)
}

func defaultProfile() profile {
	return profile{
		encsMain: []string{"I32"}, encsSmall: []string{"String16", "VarEnc", "VarEncH", "VarEncH1", "Type", "TypeOff", "TypeID", "Bytes3", "LenBytes", "U64", "I8", "Int", "NilU32", "TypeF64"},
		insts:  []string{h.InstFresh, h.InstUnm, h.InstProto, h.InstUnmUsed},
		needQs: true, nilVals: true,
		quickIDk: 4, quickScafK: 3, thoroughIDk: 6, thoroughScafK: 3, u85k: 3,
		many: true, manyQuick: true,
		shortQuick: []int{2, 3}, shortThorough: []int{1, 2, 3, 4, 5, 6, 7, 8, 9, 10},
		noOptArg: true, fillerPairs: true,
	}
}

type spaceCtx struct {
	sigma []byte
	u2    []string // U(sigma,2)
	q2    []string // query set for L=2
}

func newSpaceCtx(seed int64) *spaceCtx {
	s := &spaceCtx{sigma: h.Sigma4(seed)}
	s.u2 = h.Universe(s.sigma, 2)
	s.q2 = h.QuerySet(s.sigma, 2)
	return s
}

// queriesFor returns the query list for a scaffolded unit: lifted base queries,
// the unlifted ones (they land in the fixed part), and per-key mutations for
// small lists.
func queriesFor(sc *h.Scaffolded, base []string, perKey bool, unlifted bool) []string {
	qs := make([]string, 0, 2*len(base))
	lifted := unlifted && sc.Lift("") != ""
	for _, q := range base {
		qs = append(qs, sc.Lift(q))
		if lifted {
			qs = append(qs, q)
		}
	}
	if perKey {
		qs = append(qs, h.PerKeyQueries(sc.Keys, 64)...)
	}
	sort.Strings(qs)
	out := qs[:0]
	for i, q := range qs {
		if i == 0 || q != qs[i-1] {
			out = append(out, q)
		}
	}
	return out
}

func (p *profile) optsOr16() []h.Opt4 {
	if p.opts != nil {
		return p.opts
	}
	return h.All16()
}

// subsetPhase enumerates scaffold(S) for all S in K(U,k).
func subsetPhase(name string, U []string, minK, k int, scs []h.Scaffold, mkUnit func(sc *h.Scaffolded, small bool) *inputSpec) phase {
	return phase{name, func(emit func(u interface{}) bool) {
		it := h.NewSubsetIter(len(U), minK, k)
		for idx := it.Next(); idx != nil; idx = it.Next() {
			S := h.Pick(U, idx)
			for _, sc := range scs {
				if !emit(mkUnit(sc.Apply(S), len(S) <= 3)) {
					return
				}
			}
		}
	}}
}

// scaffoldSet builds the scaffolds of a tier.
func scaffoldSet(sp *spaceCtx, thorough bool, shorts []int, filter func(string) bool) []h.Scaffold {
	var scs []h.Scaffold
	lp := h.LiftPrefixes(sp.sigma, thorough)
	var names []string
	for n := range lp {
		names = append(names, n)
	}
	sort.Strings(names)
	for _, n := range names {
		scs = append(scs, h.ScaffoldLift(n, lp[n]))
	}
	for _, wh := range []string{"in", "lo", "mid", "hi"} {
		scs = append(scs, h.ScaffoldBigRoot(sp.sigma, wh))
	}
	scs = append(scs, h.ScaffoldBig2(sp.sigma, "in"), h.ScaffoldBig2(sp.sigma, "under"))
	for k := 0; k < 5; k++ {
		scs = append(scs, h.ScaffoldBigPair(k))
	}
	scs = append(scs, h.ScaffoldBigNibble(), h.ScaffoldBigAlias())
	for _, s := range shorts {
		if f := shortFiller(sp.sigma, s, false); f != nil {
			scs = append(scs, h.ScaffoldFixed(fmt.Sprintf("short%d", s), f, "\xb0"))
		}
		if s >= 2 && s <= 6 {
			if f := shortFiller(sp.sigma, s, true); f != nil {
				scs = append(scs, h.ScaffoldFixed(fmt.Sprintf("short%d-mixed", s), f, "\xb0"))
			}
		}
	}
	shifts := []int{1, 2, 3, 5, 7, 11, 30, 64}
	if thorough {
		shifts = nil
		for k := 1; k <= 130; k++ {
			shifts = append(shifts, k)
		}
	}
	for _, k := range shifts {
		scs = append(scs, h.ScaffoldFixed(fmt.Sprintf("shift%d", k), h.ShiftFiller(k), "\xb0"))
	}
	if filter != nil {
		var out []h.Scaffold
		for _, s := range scs {
			if filter(s.Name) {
				out = append(out, s)
			}
		}
		scs = out
	}
	return scs
}

var shortFillerCache = map[string][]string{}

// shortFiller calibrates the binomial-profile filler: r is raised until the
// measured ShortSize (decoded from the marshaled message of a default-mode
// trie over the filler alone) equals s.  Returns nil if s cannot be reached
// (recorded as missing coverage, never as a violation).
func shortFiller(sigma []byte, s int, mixed bool) []string {
	key := fmt.Sprintf("%x-%d-%v", sigma, s, mixed)
	if f, ok := shortFillerCache[key]; ok {
		return f
	}
	var res []string
	if s == 1 {
		// single-label nodes exist only in de-duplicated tries: handled by the
		// dedicated short1 family, not by a key-only filler.
		shortFillerCache[key] = nil
		return nil
	}
	r0 := 64*(1<<uint(s))/((17-s)*((1<<uint(s))-1)) + 2
	for r := r0; r <= r0*4+8; r += 1 + r/4 {
		keys := h.ShortFillerKeys(sigma, s, r, mixed)
		sort.Strings(keys)
		keys = uniq(keys)
		st, err := trie.NewSlimTrie(encode.I32{}, keys, nil)
		if err != nil {
			break
		}
		buf, _ := st.Marshal()
		if int(h.DecodeSlim(buf).ShortSize) == s {
			res = keys
			break
		}
	}
	shortFillerCache[key] = res
	return res
}

func uniq(s []string) []string {
	out := s[:0]
	for i, x := range s {
		if i == 0 || x != s[i-1] {
			out = append(out, x)
		}
	}
	return out
}

// manyFamilies are regular large key families where the count matters.
func manyFamilies(sp *spaceCtx, thorough bool) []*h.Scaffolded {
	var out []*h.Scaffolded
	add := func(name string, keys []string) {
		sort.Strings(keys)
		keys = uniq(keys)
		out = append(out, &h.Scaffolded{Name: name, Keys: keys, IsVar: make([]bool, len(keys)), Lift: func(q string) string { return q }})
	}
	s12 := append(append([]byte{}, sp.sigma...), 0x13, 0x27, 0x3a, 0x4e, 0x62, 0x85, 0x99, 0xc4)
	sort.Slice(s12, func(i, j int) bool { return s12[i] < s12[j] })
	s12 = []byte(string(uniqBytes(s12)))
	thin := func(keys []string, step, off int) []string {
		var r []string
		for i := off; i < len(keys); i += step {
			r = append(r, keys[i])
		}
		return r
	}
	// every inner node has a multi-byte step and every leaf a multi-byte tail:
	// > 64 / > 128 stored prefixes, so the rank128 and select32 indexes of the
	// prefix arrays cross their word boundaries
	{
		var keys []string
		var rec func(prefix string, d int)
		rec = func(prefix string, d int) {
			if d == 0 {
				keys = append(keys, prefix+"tail"+prefix[len(prefix)-1:])
				return
			}
			run := string([]byte{0x55, byte(d), 0xaa})
			rec(prefix+run+"\x01", d-1)
			rec(prefix+run+"\xf1", d-1)
			if d%2 == 0 {
				rec(prefix+run+"\xf8", d-1)
			}
		}
		rec("", 6)
		add("long-steps-and-tails(depth 6)", keys)
	}
	u122 := h.Universe(s12, 2)
	// more than 128 (and more than 255) 257-bit nodes: a root with 200 children,
	// each child fanning out on 12 bytes
	{
		var keys []string
		for a := 0; a < 200; a++ {
			for _, b := range s12 {
				keys = append(keys, string([]byte{byte(a + 20), b}))
			}
		}
		add("bigfan(200x12)", keys)
	}
	add("U(S12,2)", u122)
	add("U(S12,2)/2", thin(u122, 2, 1))
	// two dense levels (257-bit root, twelve 257-bit children) over many identical
	// two-way nodes (table-compressed short nodes): big and short nodes in one
	// trie, each pair differing in the high half of its last byte
	{
		var keys, keys3 []string
		for _, a := range s12 {
			for _, b := range s12 {
				keys = append(keys, string([]byte{a, b, 0x10}), string([]byte{a, b, 0xf0, 0x01}))
				keys3 = append(keys3, string([]byte{a, b, 0x5d, 0x01}), string([]byte{a, b, 0x5d, 0x02}), string([]byte{a, b, 0x5d, 0x0e}))
			}
		}
		add("big2-over-pairs(12x12x2)", keys)
		add("big2-over-triples(12x12x3)", keys3)
	}
	// every byte value 0x00..0xff as a label of one 257-bit node (plus the empty
	// key and a second level below the first, a middle and the last label)
	{
		keys := []string{""}
		for a := 0; a < 256; a++ {
			keys = append(keys, string([]byte{byte(a)}))
		}
		for _, a := range []byte{0x00, 0x3f, 0x40, 0x7f, 0x80, 0xbf, 0xc0, 0xff} {
			keys = append(keys, string([]byte{a, 0x00}), string([]byte{a, 0xff}))
		}
		add("all-256-first-bytes", keys)
	}
	// every nibble value 0..15 as a label of 17-bit nodes, at the high and at the
	// low half of a byte: a 2-way root (so that nothing below is a 257-bit node),
	// all 256 second bytes under one child, every third under the other
	{
		var keys []string
		for a := 0; a < 256; a++ {
			keys = append(keys, string([]byte{0x61, byte(a)}))
			if a%3 == 0 {
				keys = append(keys, string([]byte{0x62, byte(a)}), string([]byte{0x62, byte(a), 0x80}))
			}
		}
		add("all-16-nibbles-17bit", keys)
	}
	add("U(S4,4)", h.Universe(sp.sigma, 4))
	add("U(S4,4)/3", thin(h.Universe(sp.sigma, 4), 3, 0))
	if thorough {
		u123 := h.Universe(s12, 3)
		add("U(S12,3)", u123)
		for _, st := range []int{2, 3, 5} {
			add(fmt.Sprintf("U(S12,3)/%d", st), thin(u123, st, st-1))
		}
		add("U(S12,2)/3", thin(u122, 3, 0))
		add("U(S12,2)/5", thin(u122, 5, 2))
		add("U(S4,5)", h.Universe(sp.sigma, 5))
		add("U(S4,5)/5", thin(h.Universe(sp.sigma, 5), 5, 1))
		add("U(S2,9)", h.Universe([]byte{sp.sigma[1], sp.sigma[2]}, 9))
		for _, name := range []string{"10vl5", "11vl5", "300vl50", "10ll16k"} {
			add("testkeys:"+name, append([]string{}, testkeys.Load(name)...))
		}
		add("testkeys:20kvl10/7", thin(testkeys.Load("20kvl10"), 7, 0))
		// more than 65535 nodes and leaves
		{
			var keys []string
			for a := 0; a < 256; a++ {
				for b := 0; b < 256; b++ {
					keys = append(keys, string([]byte{byte(a), byte(b)}))
				}
			}
			add("all-65536-two-byte-keys", keys)
		}
	} else {
		add("testkeys:11vl5", append([]string{}, testkeys.Load("11vl5")...))
		add("testkeys:300vl50", append([]string{}, testkeys.Load("300vl50")...))
	}
	return out
}

func uniqBytes(b []byte) []byte {
	out := b[:0]
	for i, x := range b {
		if i == 0 || x != b[i-1] {
			out = append(out, x)
		}
	}
	return out
}

// runLengthPatterns for large families: run lengths 1,2,3,7 expressed as value id lists.
func runLengthIDs(n int, run int) []int {
	ids := make([]int, n)
	for i := range ids {
		ids[i] = 1 + i/run
	}
	return ids
}

// buildPhases makes the phase list of a tier from a profile.
func buildPhases(r *h.Run, p profile) []phase {
	sp := newSpaceCtx(r.Seed)
	thorough := r.Tier == "thorough"
	r.Bounds["alphabet"] = fmt.Sprintf("%x", sp.sigma)
	r.Bounds["universe"] = fmt.Sprintf("U(Sigma4,2) = %d strings", len(sp.u2))
	r.Bounds["queries_per_trie_base"] = len(sp.q2)
	opts := p.optsOr16()

	mk := func(base []string) func(sc *h.Scaffolded, small bool) *inputSpec {
		return func(sc *h.Scaffolded, small bool) *inputSpec {
			u := &inputSpec{sc: sc, opts: opts, insts: p.insts, zig: p.zig && thorough, nilVals: p.nilVals, noOptArg: p.noOptArg, sharedOnlyC: p.needQs}
			// the full 16 option combinations, the no-Opt call form and the
			// proto.Unmarshal instance on the smaller sets; the 8 combinations
			// that differ after normalisation and {fresh, Unmarshal} beyond.
			full := sc.NVar() <= 3 && len(sc.Keys) == sc.NVar()
			if thorough {
				full = sc.NVar() <= 4
			}
			if !full {
				if p.opts == nil {
					u.opts = h.Distinct8()
				}
				u.noOptArg = false
				u.insts = nil
				for _, in := range p.insts {
					if in != h.InstProto && in != h.InstUnmUsed {
						u.insts = append(u.insts, in)
					}
				}
			}
			u.encs = append([]string{}, p.encsMain...)
			if small && len(sc.Keys) == sc.NVar() {
				// String16 and VarEnc (variable width) on sets of <= 3 keys, the
				// remaining encoders on sets of <= 2 keys
				for _, e := range p.encsSmall {
					if e == "String16" || strings.HasPrefix(e, "VarEnc") || strings.Contains(e, "L:") || sc.NVar() <= 2 {
						u.encs = append(u.encs, e)
					}
				}
			}
			if p.needQs {
				// the unlifted queries land in the fixed part, which is the same for
				// every S: ask them for |S| <= 1 only (always in thorough)
				u.qs = queriesFor(sc, base, len(sc.Keys) <= 8, thorough || sc.NVar() <= 1)
				if !thorough && sc.NVar() >= 3 && len(sc.Keys) != sc.NVar() {
					u.insts = []string{h.InstFresh}
				}
			}
			if p.fillerPairs && thorough {
				u.fillerModes = []string{"distinct", "pairs"}
			}
			// with absent queries the second sweep doubles the dominant cost: small sets only
			u.rev = p.revSweep && len(u.qs) <= 600 && (!p.needQs || (sc.NVar() <= 3 && len(sc.Keys) == sc.NVar()) || sc.NVar() <= 1)
			return u
		}
	}

	var phases []phase
	idk, sck := p.quickIDk, p.quickScafK
	shorts := p.shortQuick
	if thorough {
		idk, sck = p.thoroughIDk, p.thoroughScafK
		shorts = p.shortThorough
	}
	r.Bounds["id_space"] = fmt.Sprintf("K(U21,%d) = %d key sets", idk, h.SubsetCount(len(sp.u2), idk))
	phases = append(phases, subsetPhase("id:K(U21)", sp.u2, 0, idk, []h.Scaffold{h.ScaffoldID()}, mk(sp.q2)))

	scs := scaffoldSet(sp, thorough, shorts, p.scaffoldFilter)
	if p.maxListKeys > 0 {
		var out []h.Scaffold
		for _, sc := range scs {
			if len(sc.Apply(nil).Keys) <= p.maxListKeys {
				out = append(out, sc)
			}
		}
		scs = out
		r.Bounds["max_list_keys"] = p.maxListKeys
	}
	var scNames []string
	for _, s := range scs {
		scNames = append(scNames, s.Name)
	}
	r.Bounds["scaffolds"] = scNames
	r.Bounds["scaffold_space"] = fmt.Sprintf("K(U21,%d) = %d variable sets per scaffold", sck, h.SubsetCount(len(sp.u2), sck))
	var latePhases []phase
	if len(scs) > 0 {
		if thorough {
			// the 130 shift offsets and the large short-table fillers (s >= 5: up to
			// 56 k keys per list) multiply the space: shifts range over K(U21,2), the
			// large fillers over K(U21,1), every other scaffold over
			// K(U21,thoroughScafK); the expensive ones run last
			var shifts, huge, others []h.Scaffold
			for _, sc := range scs {
				switch {
				case len(sc.Name) > 5 && sc.Name[:5] == "shift":
					shifts = append(shifts, sc)
				case len(sc.Name) > 5 && sc.Name[:5] == "short" && sc.Name[5] >= '5':
					huge = append(huge, sc)
				case sc.Name == "short10":
					huge = append(huge, sc)
				default:
					others = append(others, sc)
				}
			}
			if len(others) > 0 {
				latePhases = append(latePhases, subsetPhase("scaffolds:K(U21)", sp.u2, 0, sck, others, mk(sp.q2)))
			}
			if len(shifts) > 0 {
				sk := p.shiftScafK
				if sk == 0 {
					sk = 2
				}
				r.Bounds["shift_scaffold_space"] = fmt.Sprintf("K(U21,%d) = %d variable sets per shift offset", sk, h.SubsetCount(len(sp.u2), sk))
				latePhases = append(latePhases, subsetPhase(fmt.Sprintf("shift-scaffolds:K(U21,%d)", sk), sp.u2, 0, sk, shifts, mk(sp.q2)))
			}
			if len(huge) > 0 {
				r.Bounds["large_short_filler_space"] = fmt.Sprintf("K(U21,1) = %d variable sets per large short-table filler", h.SubsetCount(len(sp.u2), 1))
				mkh := mk(sp.q2)
				latePhases = append(latePhases, subsetPhase("large-short-fillers:K(U21,1)", sp.u2, 0, 1, huge, func(sc *h.Scaffolded, small bool) *inputSpec {
					u := mkh(sc, false)
					if p.opts == nil {
						u.opts = h.Distinct8()
					}
					u.fillerModes = []string{"distinct"}
					u.insts = []string{h.InstFresh, h.InstUnm}
					if p.needQs {
						u.qs = queriesFor(sc, sp.q2, false, false)
					}
					return u
				}))
			}
		} else {
			phases = append(phases, subsetPhase("scaffolds:K(U21)", sp.u2, 0, sck, scs, mk(sp.q2)))
			// every short-table size up to the maximum (10) also in the quick tier:
			// the sizes not in shortQuick over K(U21,1) with one filler mode (the
			// largest filler has about 56 k keys)
			if len(shorts) > 0 {
				inQuick := map[int]bool{}
				for _, s := range shorts {
					inQuick[s] = true
				}
				var rest []int
				for _, s := range p.shortThorough {
					if !inQuick[s] && s >= 2 {
						rest = append(rest, s)
					}
				}
				var big []h.Scaffold
				for _, s := range rest {
					if f := shortFiller(sp.sigma, s, false); f != nil && (p.maxListKeys == 0 || len(f) <= p.maxListKeys) {
						big = append(big, h.ScaffoldFixed(fmt.Sprintf("short%d", s), f, "\xb0"))
						scNames = append(scNames, fmt.Sprintf("short%d", s))
					}
				}
				if p.scaffoldFilter != nil {
					var out []h.Scaffold
					for _, s := range big {
						if p.scaffoldFilter(s.Name) {
							out = append(out, s)
						}
					}
					big = out
				}
				if len(big) > 0 {
					r.Bounds["scaffolds"] = scNames
					r.Bounds["large_short_filler_space"] = fmt.Sprintf("K(U21,1) = %d variable sets per short-table size in %v", h.SubsetCount(len(sp.u2), 1), rest)
					mkh := mk(sp.q2)
					phases = append(phases, subsetPhase("large-short-fillers:K(U21,1)", sp.u2, 0, 1, big, func(sc *h.Scaffolded, small bool) *inputSpec {
						u := mkh(sc, false)
						if p.opts == nil {
							u.opts = []h.Opt4{h.Distinct8()[0], h.Distinct8()[7]}
						}
						u.fillerModes = []string{"distinct"}
						u.insts = []string{h.InstFresh}
						if len(sc.Keys)%2 == 1 {
							u.insts = []string{h.InstUnm}
						}
						if p.needQs {
							u.qs = queriesFor(sc, sp.q2, false, false)
						}
						return u
					}))
				}
			}
		}
	}

	// shift sweep: S's root node takes every bit offset modulo 64 (k = 0..70;
	// thorough 0..130), for three label-rich variable sets
	{
		maxK := 70
		if thorough {
			maxK = 130
		}
		rich := [][]string{
			{"", "\x00", "\x0f", "\xf0", "\xff"},
			{"\x0f", "\x0f\xff", "\xf0", "\xf0\x00", "\xff\xff"},
			{"\xff", "\xff\x00", "\xff\x0f\xf0"},
		}
		r.Bounds["shift_sweep"] = fmt.Sprintf("k = 0..%d inner nodes before S's root x %d label-rich variable sets", maxK, len(rich))
		mkq := mk(sp.q2)
		phases = append(phases, phase{"shift-sweep", func(emit func(u interface{}) bool) {
			for k := 0; k <= maxK; k++ {
				sc := h.ScaffoldFixed(fmt.Sprintf("sweep%d", k), h.SweepFiller(k), "\xff")
				if p.scaffoldFilter != nil && !p.scaffoldFilter("sweep") {
					return
				}
				for _, S := range rich {
					u := mkq(sc.Apply(S), false)
					u.patterns = []uint64{(1 << uint(len(S)-1)) - 1, 0x5}
					u.fillerModes = []string{"distinct"}
					if !emit(u) {
						return
					}
				}
			}
		}})
	}

	// step sweep: every length of a single-branch run (1..140 bytes; thorough
	// 1..300 and the 16-bit boundaries) in front of three label-rich variable
	// sets, ending on a byte and on a half-byte boundary
	{
		var lens []int
		maxL := 140
		if thorough {
			maxL = 300
		}
		for l := 1; l <= maxL; l++ {
			lens = append(lens, l)
		}
		if thorough {
			lens = append(lens, 511, 512, 513, 1023, 1024, 8191, 8192, 16000)
		} else {
			lens = append(lens, 8191, 8192, 8193) // 65536 bits: the 16-bit boundary of a step counted in bits
		}
		rich := [][]string{
			{"", "\x00", "\x0f", "\xf0", "\xff"},
			{"\x0f", "\x0f\xff", "\xf0", "\xf0\x00", "\xff\xff"},
			{"\x70\x01", "\x7f", "\x7f\x00"}, // shares the high nibble: the run ends on a half byte
		}
		r.Bounds["step_sweep"] = fmt.Sprintf("run lengths 1..%d bytes (+ boundaries in thorough) x %d variable sets", maxL, len(rich))
		mkq := mk(sp.q2)
		phases = append(phases, phase{"step-sweep", func(emit func(u interface{}) bool) {
			if p.scaffoldFilter != nil && !p.scaffoldFilter("stepsweep") {
				return
			}
			for _, l := range lens {
				P := strings.Repeat("\x5d", l)
				sc := h.ScaffoldLift(fmt.Sprintf("run%d", l), P)
				for _, S := range rich {
					u := mkq(sc.Apply(S), false)
					u.patterns = []uint64{(1 << uint(len(S)-1)) - 1, 0x5}
					if !emit(u) {
						return
					}
				}
			}
		}})
	}

	// tail sweep: every length of a leaf tail (1..140 bytes; thorough 1..300 and
	// some long ones): at a 4-bit root without prefix (the key alone in its
	// nibble class), under an inner node with a prefix, and two long tails that
	// differ late
	{
		maxT := 140
		if thorough {
			maxT = 300
		}
		var lens []int
		for t := 1; t <= maxT; t++ {
			lens = append(lens, t)
		}
		lens = append(lens, 1023, 1024, 4097)
		r.Bounds["tail_sweep"] = fmt.Sprintf("leaf tail lengths 1..%d bytes + {1023, 1024, 4097} x 5 shapes", maxT)
		mkq := mk(sp.q2)
		phases = append(phases, phase{"tail-sweep", func(emit func(u interface{}) bool) {
			if p.scaffoldFilter != nil && !p.scaffoldFilter("tailsweep") {
				return
			}
			for _, t := range lens {
				x, y := strings.Repeat("\x78", t), strings.Repeat("\x79", t)
				shapes := [][]string{
					{"\x11" + x, "\x12", "\x2f" + y + "\x00"},
					{"app/a", "app/b-" + x, "app/c", "b"},
					{"\x30" + x + "\x01", "\x30" + x + "\x02" + y, "\x31"},
					{"\x1f" + x, "\x2a", "\x3b" + y}, // every key alone in its first nibble, the long ones first and last
					{"\x1f" + x + "\x01", "\x1f" + x + "\x02\x02", "\x7azz"}, // prefix-less root over a child with a long stored prefix
				}
				for si, S := range shapes {
					sort.Strings(S)
					sc := &h.Scaffolded{Name: fmt.Sprintf("tail%d-%d", t, si), Keys: S, IsVar: make([]bool, len(S)), Lift: func(q string) string { return q }}
					for i := range sc.IsVar {
						sc.IsVar[i] = true
					}
					u := mkq(sc, false)
					u.patterns = []uint64{(1 << uint(len(S)-1)) - 1, 0x2}
					if !emit(u) {
						return
					}
				}
			}
		}})
	}

	// shape sweep: the structures of the current format end on every bit position
	{
		lists, cov, all := shapeSweep()
		r.Bounds["shape_sweep"] = fmt.Sprintf("%d key lists (30..420 keys) chosen so that Inners bits, node / inner / leaf counts, stored prefix counts, highest inner id, prefix array bytes take every residue modulo 64: %d of %d (kind, residue) pairs reached", len(lists), cov, all)
		phases = append(phases, phase{"shape-sweep", func(emit func(u interface{}) bool) {
			if p.scaffoldFilter != nil && !p.scaffoldFilter("shapesweep") {
				return
			}
			for _, f := range lists {
				for _, o := range h.Distinct8() {
					if p.opts != nil && !containsOpt(p.opts, o) {
						continue
					}
					for _, run := range []int{1, 3} {
						u := &inputSpec{sc: f, rev: p.revSweep && !p.needQs, opts: []h.Opt4{o}, insts: []string{h.InstFresh, h.InstUnm}, encs: p.encsMain, tag: fmt.Sprintf("run%d", run)}
						u.explicitIDs = runLengthIDs(len(f.Keys), run)
						if p.needQs {
							u.qs = manyQueries(f.Keys)
						}
						if !emit(u) {
							return
						}
					}
				}
				if p.nilVals {
					for _, o := range []h.Opt4{h.Distinct8()[0], h.Distinct8()[7]} {
						if p.opts != nil && !containsOpt(p.opts, o) {
							continue
						}
						u := &inputSpec{sc: f, opts: []h.Opt4{o}, insts: []string{h.InstFresh}, encs: p.encsMain, tag: "nil", explicitNil: true}
						if p.needQs {
							u.qs = manyQueries(f.Keys)
						}
						if !emit(u) {
							return
						}
					}
				}
			}
		}})
	}

	// length tuples: 3 or 4 sibling leaves whose stored tails take EVERY tuple of
	// lengths 0..3 bytes (thorough 0..5 for 3 leaves), and 3 or 4 sibling inner
	// nodes whose stored prefixes take every tuple of lengths 0..3 / 0..2: a
	// layout decision derived from sums or from the first / last length (a
	// "fixed size" fast path) sees every arithmetic coincidence
	{
		mkq := mk(sp.q2)
		maxL3 := 3
		if thorough {
			maxL3 = 5
		}
		r.Bounds["length_tuples"] = fmt.Sprintf("leaf tails: {0..%d}^3 + {0..3}^4; inner prefixes: {0..3}^3 + {0..2}^4", maxL3)
		phases = append(phases, phase{"length-tuples", func(emit func(u interface{}) bool) {
			if p.scaffoldFilter != nil && !p.scaffoldFilter("lentuples") {
				return
			}
			tuples := func(n, max int, fn func(t []int) bool) bool {
				t := make([]int, n)
				for {
					if !fn(t) {
						return false
					}
					i := n - 1
					for ; i >= 0; i-- {
						t[i]++
						if t[i] <= max {
							break
						}
						t[i] = 0
					}
					if i < 0 {
						return true
					}
				}
			}
			unit := func(name string, keys []string) bool {
				sc := &h.Scaffolded{Name: name, Keys: keys, IsVar: make([]bool, len(keys)), Lift: func(q string) string { return q }}
				for i := range sc.IsVar {
					sc.IsVar[i] = true
				}
				u := mkq(sc, false)
				u.patterns = []uint64{(1 << uint(len(keys)-1)) - 1, 0x2}
				return emit(u)
			}
			for _, nm := range [][2]int{{3, maxL3}, {4, 3}} {
				if !tuples(nm[0], nm[1], func(t []int) bool {
					var keys []string
					for i, l := range t {
						keys = append(keys, string([]byte{byte(0x10*(i+1) + 1)})+strings.Repeat("\x77", l))
					}
					return unit(fmt.Sprintf("tails%v", t), keys)
				}) {
					return
				}
			}
			for _, nm := range [][2]int{{3, 3}, {4, 2}} {
				if !tuples(nm[0], nm[1], func(t []int) bool {
					var keys []string
					for i, l := range t {
						P := string([]byte{byte(0x10*(i+1) + 1)}) + strings.Repeat("\x55", l)
						keys = append(keys, P+"\x01", P+"\x02\x00")
					}
					return unit(fmt.Sprintf("prefixes%v", t), keys)
				}) {
					return
				}
			}
		}})
	}

	if thorough && p.u85k > 0 {
		u3 := h.Universe(sp.sigma, 3)
		q3 := h.QuerySet(sp.sigma, 3)
		r.Bounds["u85_space"] = fmt.Sprintf("K(U85,%d) = %d key sets, %d queries", p.u85k, h.SubsetCount(len(u3), p.u85k), len(q3))
		mk3 := mk(q3)
		phases = append(phases, subsetPhase("id:K(U85)", u3, 1, p.u85k, []h.Scaffold{h.ScaffoldID()}, func(sc *h.Scaffolded, small bool) *inputSpec {
			u := mk3(sc, false)
			u.noOptArg = false
			return u
		}))
		if p.u85k4 {
			two := []h.Opt4{{D: 1, I: 0, L: 0, C: 1}, {D: 1, I: 0, L: 0, C: 0}}
			phases = append(phases, subsetPhase("id:K(U85,4)x{Complete,default}", u3, 4, 4, []h.Scaffold{h.ScaffoldID()}, func(sc *h.Scaffolded, small bool) *inputSpec {
				u := mk3(sc, false)
				u.noOptArg = false
				u.opts = two
				u.insts = []string{h.InstFresh}
				u.patterns = []uint64{7, 5, 0}
				u.qs = queriesFor(sc, q3, false, false)
				return u
			}))
		}
	}

	if (thorough && p.many) || (!thorough && p.manyQuick) {
		fams := manyFamilies(sp, thorough)
		if p.maxListKeys > 0 {
			var out []*h.Scaffolded
			for _, f := range fams {
				if len(f.Keys) <= p.maxListKeys {
					out = append(out, f)
				}
			}
			fams = out
		}
		var famNames []string
		for _, f := range fams {
			famNames = append(famNames, fmt.Sprintf("%s(%d keys)", f.Name, len(f.Keys)))
		}
		r.Bounds["large_families"] = famNames
		phases = append(phases, phase{"many", func(emit func(u interface{}) bool) {
			for _, f := range fams {
				for _, run := range []int{1, 2, 3, 7} {
					for _, o := range h.Distinct8() {
						if p.opts != nil && !containsOpt(p.opts, o) {
							continue
						}
						u := &inputSpec{sc: f, rev: p.revSweep && !p.needQs, opts: []h.Opt4{o}, insts: p.insts, encs: p.encsMain, tag: fmt.Sprintf("run%d", run)}
						u.explicitIDs = runLengthIDs(len(f.Keys), run)
						if p.needQs {
							u.qs = manyQueries(f.Keys)
						}
						if !emit(u) {
							return
						}
					}
				}
				// variable-width values with presence holes (every 4th value encodes to
				// the empty slice) and a run in between
				if containsStr(p.encsSmall, "VarEnc") {
					for _, o := range []h.Opt4{{D: 1, I: 0, L: 0, C: 0}, {D: 0, I: 0, L: 0, C: 1}} {
						if p.opts != nil && !containsOpt(p.opts, o) {
							continue
						}
						// long variable-width values on the same family
						ul := &inputSpec{sc: f, rev: p.revSweep && !p.needQs, opts: []h.Opt4{o}, insts: p.insts, encs: []string{"String16L"}, tag: "long-values"}
						ul.explicitIDs = runLengthIDs(len(f.Keys), 2)
						if p.needQs {
							ul.qs = manyQueries(f.Keys)
						}
						if len(f.Keys) <= 2500 && !emit(ul) {
							return
						}
						u := &inputSpec{sc: f, rev: p.revSweep && !p.needQs, opts: []h.Opt4{o}, insts: p.insts, encs: []string{"VarEnc"}, tag: "holes"}
						ids := make([]int, len(f.Keys))
						for i := range ids {
							switch {
							case i%4 == 0:
								ids[i] = 0
							case i%7 == 3:
								ids[i] = ids[i-1]
							default:
								ids[i] = 1 + i
							}
						}
						u.explicitIDs = ids
						if p.needQs {
							u.qs = manyQueries(f.Keys)
						}
						if !emit(u) {
							return
						}
						// few holes in an otherwise dense value list (whole 64-leaf words
						// of the presence bitmap are full behind a hole): one hole at the
						// first, a middle and the last key, two neighbours, the first 64
						// keys; variable-size and fixed-size leaf arrays
						if n := len(f.Keys); n >= 130 && n <= 2500 {
							for hi, holes := range [][]int{{0}, {n / 3}, {n - 1}, {n / 2, n/2 + 1}, seqInts(0, 64)} {
								for _, enc := range []string{"VarEnc", "VarEncH"} {
									uh := &inputSpec{sc: f, rev: p.revSweep && !p.needQs, opts: []h.Opt4{o}, insts: p.insts, encs: []string{enc}, tag: fmt.Sprintf("few-holes%d", hi)}
									ids := make([]int, n)
									for i := range ids {
										ids[i] = 2*i + 1
									}
									for _, x := range holes {
										ids[x] = 0
									}
									uh.explicitIDs = ids
									if p.needQs {
										uh.qs = manyQueries(f.Keys)
									}
									if !emit(uh) {
										return
									}
								}
							}
						}
					}
				}
				if p.nilVals {
					for _, o := range h.Distinct8()[:4] {
						if p.opts != nil && !containsOpt(p.opts, o) {
							continue
						}
						u := &inputSpec{sc: f, rev: p.revSweep && !p.needQs, opts: []h.Opt4{o}, insts: p.insts, encs: p.encsMain, tag: "nil"}
						u.explicitNil = true
						if p.needQs {
							u.qs = manyQueries(f.Keys)
						}
						if !emit(u) {
							return
						}
					}
				}
			}
		}})
	}
	// the sweeps and tuple families are cheap (seconds) and reach what the subset
	// spaces do not: they run first, so that a run that is cut by its time budget
	// on a loaded machine has still finished them
	var first, rest []phase
	for _, ph := range phases {
		switch ph.name {
		case "shift-sweep", "step-sweep", "tail-sweep", "length-tuples", "shape-sweep":
			first = append(first, ph)
		case "many", "large-short-fillers:K(U21,1)":
			// cheap for the lookup oracles (seconds), heavy for the scan oracle
			if p.manyLate {
				rest = append(rest, ph)
			} else {
				first = append(first, ph)
			}
		default:
			rest = append(rest, ph)
		}
	}
	return append(append(first, rest...), latePhases...)
}

func seqInts(from, n int) []int {
	r := make([]int, n)
	for i := range r {
		r[i] = from + i
	}
	return r
}

func containsStr(l []string, s string) bool {
	for _, x := range l {
		if x == s {
			return true
		}
	}
	return false
}

func containsOpt(l []h.Opt4, o h.Opt4) bool {
	for _, x := range l {
		if x == o {
			return true
		}
	}
	return false
}

var manyQCache = map[string][]string{}

// manyQueries: all keys, their per-key mutations (bounded for long keys).
func manyQueries(keys []string) []string {
	if len(keys) == 0 {
		return nil
	}
	ck := fmt.Sprintf("%d:%x:%x", len(keys), keys[0], keys[len(keys)-1])
	if q, ok := manyQCache[ck]; ok {
		return q
	}
	step := 1
	if len(keys) > 2000 {
		step = len(keys) / 2000
	}
	var sel []string
	for i := 0; i < len(keys); i += step {
		sel = append(sel, keys[i])
	}
	q := append(h.PerKeyQueries(sel, 24), keys...)
	sort.Strings(q)
	q = uniq(q)
	manyQCache[ck] = q
	return q
}

var shapeSweepCache struct {
	lists   []*h.Scaffolded
	covered int
	kinds   int
}

// shapeSweep chooses, greedily from the sorted prefixes of regular base lists,
// key lists such that the structures of the CURRENT format end on every bit
// position of a 64-bit word: total bits of Inners, node count, inner-node
// count, leaf count, number of stored inner prefixes and leaf prefixes, highest
// inner-node id, bytes of the inner-prefix and leaf-prefix arrays (their
// position bitmaps), each modulo 64, plus the pair (Inners bits modulo 64,
// the last inner node is a short node).  Measured on the exported message of a
// Complete-mode build; reports how many (kind, residue) pairs were reached.
func shapeSweep() ([]*h.Scaffolded, int, int) {
	if shapeSweepCache.lists != nil {
		return shapeSweepCache.lists, shapeSweepCache.covered, shapeSweepCache.kinds
	}
	pop := func(b *trie.Bitmap) int {
		n := 0
		if b != nil {
			for _, x := range b.Words {
				for ; x != 0; x &= x - 1 {
					n++
				}
			}
		}
		return n
	}
	seen := map[[2]int]bool{}
	var out []*h.Scaffolded
	for bi, base := range legacy.SweepBases() {
		for n := 30; n <= len(base); n++ {
			keys := append([]string{}, base[:n]...)
			sort.Strings(keys)
			keys = uniq(keys)
			vals := make([]int32, len(keys))
			for i := range vals {
				vals[i] = int32(i)
			}
			st, err := trie.NewSlimTrie(encode.I32{}, keys, vals, trie.Opt{Complete: trie.Bool(true)})
			if err != nil {
				continue
			}
			buf, _ := st.Marshal()
			s := h.DecodeSlim(buf)
			inner, short, big := pop(s.NodeTypeBM), pop(s.ShortBM), int(s.BigInnerCnt)
			bits := 257*big + 17*(inner-big-short) + int(s.ShortSize)*short
			lastInner, lastShort := -1, 0
			if s.NodeTypeBM != nil {
				ith := 0
				for wi, x := range s.NodeTypeBM.Words {
					for b := 0; b < 64; b++ {
						if x>>uint(b)&1 == 1 {
							lastInner = wi*64 + b
							lastShort = 0
							if s.ShortBM != nil && ith>>6 < len(s.ShortBM.Words) && s.ShortBM.Words[ith>>6]>>(uint(ith)&63)&1 == 1 {
								lastShort = 1
							}
							ith++
						}
					}
				}
			}
			ms := []int{bits % 64, (inner + len(keys)) % 64, inner % 64, len(keys) % 64, -1, -1, lastInner % 64, -1, -1, lastShort*64 + bits%64}
			if s.InnerPrefixes != nil {
				ms[4], ms[7] = int(s.InnerPrefixes.EltCnt)%64, len(s.InnerPrefixes.Bytes)%64
			}
			if s.LeafPrefixes != nil {
				ms[5], ms[8] = int(s.LeafPrefixes.EltCnt)%64, len(s.LeafPrefixes.Bytes)%64
			}
			fresh := false
			for kind, v := range ms {
				if v < 0 {
					continue
				}
				if p := [2]int{kind, v}; !seen[p] {
					seen[p] = true
					fresh = true
				}
			}
			if fresh {
				out = append(out, &h.Scaffolded{Name: fmt.Sprintf("shape-sweep(base%d,n=%d)", bi, n), Keys: keys, IsVar: make([]bool, len(keys)), Lift: func(q string) string { return q }})
			}
		}
	}
	shapeSweepCache.lists, shapeSweepCache.covered, shapeSweepCache.kinds = out, len(seen), 9*64+128
	return out, len(seen), 9*64 + 128
}
