package checks

import (
	"bytes"
	"fmt"
	"reflect"
	"time"

	"github.com/openacid/slim/encode"

	"github.com/golang/protobuf/proto"
	"github.com/openacid/slim/trie"
	"verif/internal/h"
)

func init() {
	register(&Check{ID: "C20", Level: "model_checking", Run: runC20, QuickBudget: 400 * time.Second, ThoroughBudget: 45 * time.Minute})
	Replayers["c20"] = replayC20
}

type c20Case struct {
	h.CaseJSON
	Layout   string `json:"layout,omitempty"` // legacy layout for the load clause
	Spread   bool   `json:"spread_opts"`
	ViaProto bool   `json:"via_proto"`
}

func deepCopyVals(v interface{}) interface{} {
	if v == nil {
		return nil
	}
	rv := reflect.ValueOf(v)
	cp := reflect.MakeSlice(rv.Type(), rv.Len(), rv.Len())
	for i := 0; i < rv.Len(); i++ {
		e := rv.Index(i)
		if e.Kind() == reflect.Slice && e.Type().Elem().Kind() == reflect.Uint8 {
			cp.Index(i).Set(reflect.ValueOf(append([]byte{}, e.Bytes()...)))
		} else {
			cp.Index(i).Set(e)
		}
	}
	return cp.Interface()
}

func fillPatterns(n int, addr uintptr) [][]byte {
	z := make([]byte, n)
	f := bytes.Repeat([]byte{0xff}, n)
	a := make([]byte, n)
	for i := range a {
		a[i] = byte(uintptr(i)*131 + addr>>4 + 0x5b)
	}
	return [][]byte{z, f, a}
}

// snapshot of everything observable + the deep digest
func snap(st *trie.SlimTrie, qs []string, complete bool) (string, uint64) {
	o, p := observe(st, qs, complete, true)
	if p != nil {
		o += fmt.Sprintf("<panic %v>", p)
	}
	return o, h.Digest(st)
}

// evalC20Build: the build clause on one case.
func evalC20Build(w *h.Worker, c *h.Case, qs []string, spread bool) *h.Viol {
	spec := h.EncSpec{Name: c.Enc}
	enc := spec.Encoder()
	keys := append([]string{}, c.Keys...)
	keysCopy := append([]string{}, keys...)
	var vals, valsCopy interface{}
	if c.ValIDs != nil {
		vals = spec.Values(c.ValIDs)
		valsCopy = deepCopyVals(vals)
	}
	o := c.Opt.ToOpt()
	ptrs := [4]*bool{o.DedupValue, o.InnerPrefix, o.LeafPrefix, o.Complete}
	var cells [4]bool
	for i, p := range ptrs {
		if p != nil {
			cells[i] = *p
		}
	}
	optSlice := []trie.Opt{o}
	var st *trie.SlimTrie
	var err error
	if p := h.Safely(func() {
		if spread {
			st, err = trie.NewSlimTrie(enc, keys, vals, optSlice...)
		} else {
			st, err = trie.NewSlimTrie(enc, keys, vals, o)
		}
	}); p != nil || err != nil {
		w.DontCare++
		return nil
	}
	w.Trans++
	if !reflect.DeepEqual(keys, keysCopy) {
		return &h.Viol{Sig: "build-modifies-keys", Msg: "NewSlimTrie modified the caller's key slice"}
	}
	if !reflect.DeepEqual(vals, valsCopy) {
		return &h.Viol{Sig: "build-modifies-values", Msg: "NewSlimTrie modified the caller's value slice"}
	}
	for _, oo := range []trie.Opt{o, optSlice[0]} {
		now := [4]*bool{oo.DedupValue, oo.InnerPrefix, oo.LeafPrefix, oo.Complete}
		for i := range now {
			if now[i] != ptrs[i] {
				return &h.Viol{Sig: "build-modifies-opt", Msg: fmt.Sprintf("NewSlimTrie replaced option pointer #%d in the caller's Opt (spread=%v)", i, spread)}
			}
			if now[i] != nil && *now[i] != cells[i] {
				return &h.Viol{Sig: "build-modifies-opt", Msg: fmt.Sprintf("NewSlimTrie changed the Boolean option #%d points to (spread=%v)", i, spread)}
			}
		}
	}
	complete := c.Opt.IsComplete()
	before, dig := snap(st, qs, complete)
	// overwrite the caller's value memory (and key slice) and re-ask everything
	if vals != nil {
		rv := reflect.ValueOf(vals)
		for i := 0; i < rv.Len(); i++ {
			e := rv.Index(i)
			if e.Kind() == reflect.Slice && e.Type().Elem().Kind() == reflect.Uint8 {
				bs := e.Bytes()
				for j := range bs {
					bs[j] ^= 0xff
				}
			} else {
				e.Set(reflect.Zero(e.Type()))
			}
		}
	}
	for i := range keys {
		keys[i] = "\xee" + keys[i]
	}
	for i, p := range ptrs {
		if p != nil {
			*p = !cells[i]
		}
	}
	after, dig2 := snap(st, qs, complete)
	w.Trans += int64(len(qs)) * 8
	if before != after {
		return &h.Viol{Sig: "build-aliases-caller-memory", Msg: fmt.Sprintf("overwriting the caller's keys/values/option cells after the build changes answers (first difference at byte %d of the observation)", firstDiff([]byte(before), []byte(after)))}
	}
	if dig != dig2 {
		return &h.Viol{Sig: "build-retains-caller-memory", Msg: "overwriting the caller's keys/values/option cells after the build changes the trie's reachable state (it retains caller memory)"}
	}
	return nil
}

// evalC20Arena: values carved out of one caller-owned arena, one of them shorter
// than the encoder's fixed width and followed, inside its spare capacity, by the
// next value.  Whatever the library makes of such values, the build must not
// write into the arena (nothing is asserted about answers: a value shorter than
// the declared width is outside the encoder's domain).
func evalC20Arena(w *h.Worker, keys []string, opt h.Opt4) *h.Viol {
	n := len(keys)
	if n == 0 {
		return nil
	}
	for short := -1; short < n; short++ {
		arena := make([]byte, 0, 3*n+8)
		vals := make([][]byte, n)
		for i := 0; i < n; i++ {
			l := 3
			if i == short {
				l = 2
			}
			start := len(arena)
			for j := 0; j < l; j++ {
				arena = append(arena, byte(0x41+i*3+j))
			}
			vals[i] = arena[start : start+l] // capacity reaches to the end of the arena
		}
		arena = append(arena, 0xee, 0xee, 0xee, 0xee)
		full := arena[:cap(arena)]
		before := append([]byte{}, full...)
		type hdr struct{ l, c int }
		var hs []hdr
		for _, v := range vals {
			hs = append(hs, hdr{len(v), cap(v)})
		}
		h.Safely(func() {
			trie.NewSlimTrie(encode.Bytes{Size: 3}, append([]string{}, keys...), vals, opt.ToOpt())
		})
		w.Trans++
		if !bytes.Equal(full, before) {
			return &h.Viol{Sig: "build-modifies-values", Msg: fmt.Sprintf("NewSlimTrie wrote into the caller's value arena (value #%d is shorter than the encoder width): %x -> %x", short, before, full)}
		}
		for i, v := range vals {
			if len(v) != hs[i].l || cap(v) != hs[i].c {
				return &h.Viol{Sig: "build-modifies-values", Msg: fmt.Sprintf("NewSlimTrie changed the caller's value slice header #%d", i)}
			}
		}
	}
	return nil
}

// evalC20Load: the load and marshal clauses on one stream.
func evalC20Load(w *h.Worker, stream []byte, complete bool, viaProto bool, qs []string) *h.Viol {
	// the very first Marshal results of a new instance: each returned slice is
	// overwritten at once, the next call must still produce the original bytes
	// (nothing has read the instance before, so a result that the instance keeps
	// from its first serialisation is the one the caller scribbles over)
	{
		st := startInstance("new")
		if err, p := loadInto(st, append([]byte{}, stream...), viaProto); p == nil && err == nil {
			if v := firstMarshals(w, st); v != nil {
				return v
			}
		}
	}
	// the stream (whole, and cut short at its last bytes, behind its trailing zero
	// bytes and just behind the header) handed over as the front of a larger
	// caller-owned arena: whatever the load answers, the arena is byte-identical
	// afterwards, spare capacity included
	{
		arena := make([]byte, len(stream)+64)
		for i := range arena {
			arena[i] = 0xee
		}
		copy(arena, stream)
		want := append([]byte{}, arena...)
		cuts := []int{len(stream), 32, 33, len(bytes.TrimRight(stream, "\x00"))}
		for n := len(stream) - 1; n >= 0 && n >= len(stream)-8; n-- {
			cuts = append(cuts, n)
		}
		for _, n := range cuts {
			if n < 0 || n > len(stream) {
				continue
			}
			loadInto(startInstance("new"), arena[:n], viaProto)
			w.Trans++
			if !bytes.Equal(arena, want) {
				return &h.Viol{Sig: "load-modifies-arena", Msg: fmt.Sprintf("Unmarshal of the first %d of %d stream bytes, handed over as the front of a larger caller-owned buffer, wrote into that buffer at byte %d (spare capacity is caller-owned memory)", n, len(stream), firstDiff(arena, want))}
			}
		}
	}
	for pi := 0; pi < 3; pi++ {
		buf := append([]byte{}, stream...)
		st := startInstance("new")
		err, p := loadInto(st, buf, viaProto)
		w.Trans++
		if p != nil || err != nil {
			w.DontCare++
			return nil // loadability is C05/C06's business
		}
		if !bytes.Equal(buf, stream) {
			return &h.Viol{Sig: "load-modifies-buffer", Msg: fmt.Sprintf("Unmarshal modified its input buffer (first difference at byte %d)", firstDiff(buf, stream))}
		}
		before, dig := snap(st, qs, complete)
		pat := fillPatterns(len(buf), reflect.ValueOf(buf).Pointer())[pi]
		copy(buf, pat)
		after, dig2 := snap(st, qs, complete)
		w.Trans += int64(len(qs)) * 8
		if before != after {
			return &h.Viol{Sig: "load-aliases-buffer", Msg: fmt.Sprintf("overwriting the input buffer after Unmarshal changes answers (pattern %d, first difference at byte %d of the observation)", pi, firstDiff([]byte(before), []byte(after)))}
		}
		if dig != dig2 {
			return &h.Viol{Sig: "load-retains-buffer", Msg: fmt.Sprintf("overwriting the input buffer after Unmarshal changes the trie's reachable state: the buffer is retained (pattern %d)", pi)}
		}
		// marshal clause
		var out []byte
		if viaProto {
			out, err = proto.Marshal(st)
		} else {
			out, err = st.Marshal()
		}
		if err != nil {
			w.DontCare++
			return nil
		}
		orig := append([]byte{}, out...)
		copy(out, fillPatterns(len(out), reflect.ValueOf(out).Pointer())[pi])
		after2, dig3 := snap(st, qs, complete)
		out2, _ := st.Marshal()
		w.Trans += int64(len(qs))*4 + 2
		if after2 != before {
			return &h.Viol{Sig: "marshal-output-aliased", Msg: fmt.Sprintf("overwriting the bytes returned by Marshal changes later answers or Marshal output (pattern %d)", pi)}
		}
		if !bytes.Equal(out2, orig) {
			return &h.Viol{Sig: "marshal-output-aliased", Msg: fmt.Sprintf("overwriting the bytes returned by Marshal changes a later Marshal (pattern %d)", pi)}
		}
		if dig3 != dig {
			return &h.Viol{Sig: "marshal-output-aliased", Msg: fmt.Sprintf("overwriting the bytes returned by Marshal changes the trie's reachable state (pattern %d)", pi)}
		}
	}
	return nil
}

// firstMarshals calls Marshal / proto.Marshal / proto.Size on an instance that
// nothing has read yet and overwrites every returned slice immediately.
func firstMarshals(w *h.Worker, st *trie.SlimTrie) *h.Viol {
	var orig []byte
	for k := 0; k < 4; k++ {
		var out []byte
		var err error
		if k%2 == 0 {
			out, err = st.Marshal()
		} else {
			out, err = proto.Marshal(st)
		}
		w.Trans++
		if err != nil {
			return nil
		}
		if k == 0 {
			orig = append([]byte{}, out...)
		} else if !bytes.Equal(out, orig) {
			return &h.Viol{Sig: "marshal-output-aliased", Msg: fmt.Sprintf("Marshal call #%d on a new instance differs from call #1 after the caller overwrote the bytes the earlier calls returned (first difference at byte %d)", k+1, firstDiff(out, orig))}
		}
		if n := proto.Size(st); n != len(orig) {
			return &h.Viol{Sig: "marshal-output-aliased", Msg: fmt.Sprintf("proto.Size = %d after the caller overwrote the bytes Marshal returned, the stream has %d bytes", n, len(orig))}
		}
		copy(out, fillPatterns(len(out), reflect.ValueOf(out).Pointer())[k%3])
	}
	return nil
}

type c20Unit struct {
	sc     *h.Scaffolded
	legacy bool
}

func runC20(r *h.Run) {
	thorough := r.Tier == "thorough"
	sp := newSpaceCtx(r.Seed)
	if !conformLegacy(r) {
		return
	}
	layouts := legacyLayouts()
	r.Rule = "build clause: every key set of K(U21,k) (k = 3 quick / 4 thorough) and the scaffolded sets x encoders {I32, String16, Bytes3 (Encode returns the caller's slice), VarEnc, LenBytes and Dummy over [][]byte values (encoders that are not the identity on the caller's byte slices)} x nil + all run patterns x all 81 option combinations over {nil,false,true} on sets <= 2 keys (8 normalised beyond) x {Opt passed by value, Opt slice spread}: keys, values and Opt (pointer identity and pointed-to Booleans) are compared with deep copies taken before, then the caller's value bytes, key slice and option cells are overwritten and every observation (additionally, with the pass-through Bytes encoder, values carved out of one caller-owned arena with spare capacity, each in turn shorter than the encoder width: the arena must be byte-identical after the build) (answers to Q, scans, Stat, String, Marshal bytes) and the deep digest must be unchanged; load clause: the marshaled stream of each of those tries and every legacy layout's stream of every key set of K(U21,2) and the legacy families: the buffer equals its copy after Unmarshal / proto.Unmarshal, then it is overwritten with 0x00, 0xff and an address-dependent pattern: observations AND deep digest unchanged; the stream whole and cut short (last 8 bytes, behind its trailing zeros, behind the header) as the front of a larger caller-owned arena: the arena incl. spare capacity is byte-identical after the load, accepted or rejected; marshal clause: the bytes returned by Marshal / proto.Marshal are overwritten with the same patterns: observations, digest and a second Marshal unchanged. A state is a distinct (stream, layout) resp. build input"
	r.Assumptions = []string{"retention is detected through a deep digest of everything reachable from the instance (reflect + unsafe, unexported fields included): memory reachable only through an uintptr or a closure would be missed", "loadability itself is decided by C05/C06"}
	k := 3
	if thorough {
		k = 4
	}
	qs := sp.q2
	scs := scaffoldSet(sp, thorough, []int{2}, func(n string) bool {
		return n == "lift3" || n == "bigroot-in" || n == "big2-in" || n == "short2-mixed" || n == "shift3" || (thorough && (n == "short2" || n == "bigroot-mid" || n == "shift64"))
	})
	encs := []string{"I32", "String16", "Bytes3", "VarEnc", "LenBytes", "DummyB"}
	work := func(w *h.Worker, x interface{}) {
		u := x.(c20Unit)
		w.Begin(func() string { return fmt.Sprintf("C20 %s keys=%d", u.sc.Name, len(u.sc.Keys)) })
		uqs := queriesFor(u.sc, qs, false, false)
		if !thorough {
			// aliasing shows on any answer that touches the aliased bytes and always in
			// the deep digest: the quick tier asks the keys and every 6th query
			var lite []string
			for i, q := range uqs {
				if i%6 == 0 {
					lite = append(lite, q)
				}
			}
			uqs = append(lite, u.sc.Keys...)
		}
		if u.legacy {
			for li := range layouts {
				l := &layouts[li]
				stream := l.write(u.sc.Keys, legacyVals(len(u.sc.Keys)))
				for _, vp := range []bool{false, true} {
					w.Evals++
					w.Tick()
					if v := evalC20Load(w, stream, l.inner && l.leaf, vp, uqs); v != nil {
						v.Msg += fmt.Sprintf(" | layout %s keys=%v viaProto=%v", l.Name, hexKeys(u.sc.Keys), vp)
						cj := c20Case{Layout: l.Name, ViaProto: vp}
						cj.KeysHex = hexKeys(u.sc.Keys)
						cj.Opt = h.Opt4{}.String()
						v.Kind, v.Case, v.Unit = "c20", cj, w.Unit()
						w.Report(*v)
						return
					}
				}
				w.State(h.Hash64([]byte(l.Name), stream), len(u.sc.Keys) >= 2)
				w.Feature("legacy_streams_" + l.Name)
			}
			w.Sample(map[string]interface{}{"clause": "load (legacy)", "keys_hex": hexKeys(u.sc.Keys[:min(3, len(u.sc.Keys))]), "layouts": len(layouts)})
			return
		}
		small := u.sc.NVar() <= 1 && len(u.sc.Keys) == u.sc.NVar()
		if thorough {
			small = u.sc.NVar() <= 2 && len(u.sc.Keys) == u.sc.NVar()
		}
		spec := &inputSpec{sc: u.sc, encs: encs[:1], opts: h.Distinct8(), nilVals: true}
		if len(u.sc.Keys) == u.sc.NVar() {
			spec.encs = encs
		}
		if small {
			spec.opts = h.All81()
		}
		caseNo := 0
		spec.cases(func(c *h.Case) bool {
			caseNo++
			for _, spread := range []bool{false, true} {
				if !thorough && !small && spread != (caseNo%2 == 0) {
					continue
				}
				w.Evals++
				w.Tick()
				if v := evalC20Build(w, c, uqs, spread); v != nil {
					v.Msg += " | " + c.Brief()
					v.Kind, v.Case, v.Unit = "c20", c20Case{CaseJSON: c.JSON(), Spread: spread}, w.Unit()
					w.Report(*v)
					return false
				}
			}
			// load + marshal clause on this trie's own stream (normalised modes only)
			if c.Opt.D >= 0 && c.Opt.I >= 0 && c.Opt.L >= 0 && c.Opt.C >= 0 && (c.Opt.C == 0 || (c.Opt.I == 0 && c.Opt.L == 0)) {
				b, p := h.Build(c)
				if p == nil && b.Err == nil {
					// the first serialisations of the BUILT instance, each result overwritten at once
					if v := firstMarshals(w, b.ST); v != nil {
						v.Msg += " (built instance) | " + c.Brief()
						v.Kind, v.Case, v.Unit = "c20", c20Case{CaseJSON: c.JSON(), Layout: "current"}, w.Unit()
						w.Report(*v)
						return false
					}
					stream, err := b.ST.Marshal()
					if err == nil {
						// the loader must use the same encoder as the builder
						for _, vp := range []bool{false, true} {
							w.Evals++
							w.Tick()
							if !thorough && vp != (caseNo%2 == 0) {
								continue
							}
							pats := []int{0, 1, 2}
							if !thorough {
								pats = []int{caseNo % 3}
							}
							if v := evalC20LoadEnc(w, stream, b, vp, uqs, pats); v != nil {
								v.Msg += " | " + c.Brief()
								v.Kind, v.Case, v.Unit = "c20", c20Case{CaseJSON: c.JSON(), ViaProto: vp, Layout: "current"}, w.Unit()
								w.Report(*v)
								return false
							}
						}
						w.State(h.Hash64(stream, []byte(c.Opt.String()), []byte(c.Enc)), len(b.Kept) >= 2)
					}
				}
			}
			if c.Enc == "Bytes3" && c.ValIDs != nil {
				w.Evals++
				w.Tick()
				if v := evalC20Arena(w, c.Keys, c.Opt); v != nil {
					v.Msg += " | " + c.Brief()
					cj := c20Case{CaseJSON: c.JSON(), Layout: "arena"}
					v.Kind, v.Case, v.Unit = "c20", cj, w.Unit()
					w.Report(*v)
					return false
				}
			}
			w.Sample(map[string]interface{}{"clause": "build + load + marshal", "case": c.Brief()})
			return !w.Stopped()
		})
	}
	r.Phase("id:K(U21)", func(emit func(u interface{}) bool) {
		it := h.NewSubsetIter(len(sp.u2), 0, k)
		for idx := it.Next(); idx != nil; idx = it.Next() {
			if !emit(c20Unit{sc: h.ScaffoldID().Apply(h.Pick(sp.u2, idx))}) {
				return
			}
		}
	}, work)
	r.Phase("scaffolds:K(U21,2)", func(emit func(u interface{}) bool) {
		it := h.NewSubsetIter(len(sp.u2), 0, 2)
		for idx := it.Next(); idx != nil; idx = it.Next() {
			for _, sc := range scs {
				if !emit(c20Unit{sc: sc.Apply(h.Pick(sp.u2, idx))}) {
					return
				}
			}
		}
	}, work)
	r.Phase("legacy:K(U21,2)+families", func(emit func(u interface{}) bool) {
		it := h.NewSubsetIter(len(sp.u2), 0, 2)
		for idx := it.Next(); idx != nil; idx = it.Next() {
			if !emit(c20Unit{sc: h.ScaffoldID().Apply(h.Pick(sp.u2, idx)), legacy: true}) {
				return
			}
		}
		fams := c06Families(sp, thorough)
		for n, keys := range fams {
			if len(keys) > 400 || maxKeyLen(keys) > 3000 {
				continue
			}
			sc := &h.Scaffolded{Name: "legacy-family:" + n, Keys: keys, IsVar: make([]bool, len(keys)), Lift: func(q string) string { return q }}
			if !emit(c20Unit{sc: sc, legacy: true}) {
				return
			}
		}
		for _, sc := range scs {
			if !emit(c20Unit{sc: sc.Apply([]string{"", "\xff\x00"}), legacy: true}) {
				return
			}
		}
	}, work)
}

// evalC20LoadEnc is evalC20Load with the encoder of the built trie.
func evalC20LoadEnc(w *h.Worker, stream []byte, b *h.Built, viaProto bool, qs []string, pats []int) *h.Viol {
	complete := b.Opt.IsComplete()
	if st, err := trie.NewSlimTrie(b.Encoder, nil, nil); err == nil {
		if err, p := loadInto(st, append([]byte{}, stream...), viaProto); p == nil && err == nil {
			if v := firstMarshals(w, st); v != nil {
				return v
			}
		}
	}
	for _, pi := range pats {
		buf := append([]byte{}, stream...)
		st, err := trie.NewSlimTrie(b.Encoder, nil, nil)
		if err != nil {
			return nil
		}
		err, p := loadInto(st, buf, viaProto)
		w.Trans++
		if p != nil || err != nil {
			w.DontCare++
			return nil
		}
		if !bytes.Equal(buf, stream) {
			return &h.Viol{Sig: "load-modifies-buffer", Msg: fmt.Sprintf("Unmarshal modified its input buffer (first difference at byte %d)", firstDiff(buf, stream))}
		}
		before, dig := snap(st, qs, complete)
		copy(buf, fillPatterns(len(buf), reflect.ValueOf(buf).Pointer())[pi])
		after, dig2 := snap(st, qs, complete)
		w.Trans += int64(len(qs)) * 8
		if before != after {
			return &h.Viol{Sig: "load-aliases-buffer", Msg: fmt.Sprintf("overwriting the input buffer after Unmarshal changes answers (pattern %d)", pi)}
		}
		if dig != dig2 {
			return &h.Viol{Sig: "load-retains-buffer", Msg: fmt.Sprintf("overwriting the input buffer after Unmarshal changes the trie's reachable state: the buffer is retained (pattern %d)", pi)}
		}
		out, err := st.Marshal()
		if err != nil {
			return nil
		}
		orig := append([]byte{}, out...)
		copy(out, fillPatterns(len(out), reflect.ValueOf(out).Pointer())[pi])
		after2, dig3 := snap(st, qs, complete)
		out2, _ := st.Marshal()
		w.Trans += int64(len(qs))*4 + 2
		if after2 != before || !bytes.Equal(out2, orig) || dig3 != dig {
			return &h.Viol{Sig: "marshal-output-aliased", Msg: fmt.Sprintf("overwriting the bytes returned by Marshal changes later answers, Marshal output or reachable state (pattern %d)", pi)}
		}
	}
	return nil
}

func replayC20(prop string, raw []byte) *h.Viol {
	var cj c20Case
	if err := jsonUnmarshal(raw, &cj); err != nil {
		return &h.Viol{Msg: err.Error()}
	}
	w := h.NewRun(prop, "quick", 0, "model_checking", 0).W0()
	qs := newSpaceCtx(0).q2
	c := cj.CaseJSON.Case()
	switch {
	case cj.Layout == "arena":
		return evalC20Arena(w, c.Keys, c.Opt)
	case cj.Layout == "":
		return evalC20Build(w, c, qs, cj.Spread)
	case cj.Layout == "current":
		b, p := h.Build(c)
		if p != nil || b.Err != nil {
			return nil
		}
		stream, _ := b.ST.Marshal()
		return evalC20LoadEnc(w, stream, b, cj.ViaProto, qs, []int{0, 1, 2})
	default:
		l := layoutByName(cj.Layout)
		if l == nil {
			return &h.Viol{Msg: "unknown layout"}
		}
		stream := l.write(c.Keys, legacyVals(len(c.Keys)))
		return evalC20Load(w, stream, l.inner && l.leaf, cj.ViaProto, qs)
	}
}
