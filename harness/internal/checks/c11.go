package checks

import (
	"bytes"
	"context"
	"encoding/json"
	"fmt"
	"io/ioutil"
	"os"
	"os/exec"
	"path/filepath"
	"strings"
	"sync"
	"sync/atomic"
	"time"

	"verif/internal/c11"
	"verif/internal/h"
	"verif/internal/instr"
	"verif/internal/sched"
)

func init() {
	register(&Check{ID: "C11", Level: "model_checking", Run: runC11, QuickBudget: 480 * time.Second, ThoroughBudget: 40 * time.Minute})
	Replayers["c11"] = replayC11
}

type c11Case struct {
	Seed      int64           `json:"seed"`
	Tier      string          `json:"tier"`
	Violation sched.Violation `json:"violation"`
	Race      string          `json:"race_report,omitempty"`
}

// c11Builds makes the instrumented and the race binaries in a scratch dir
// outside /repo and /verif; the caller removes the directory.
type c11Builds struct {
	dir       string
	sched     string
	race      string
	instr     *instr.Result
	buildTime float64
}

func harnessDir() string { return filepath.Join(h.VerifDir, "harness") }

func goEnv() []string {
	env := os.Environ()
	env = append(env, "GOFLAGS=-mod=mod", "GOPROXY=off", "GOSUMDB=off", "GOTOOLCHAIN=local")
	return env
}

// modfileArgs: run_check.sh passes the alternate go.mod (VERIF_MODFILE) used
// when the repository under test is not /repo.
func modfileArgs() []string {
	if m := os.Getenv("VERIF_MODFILE"); m != "" {
		return []string{"-modfile=" + m}
	}
	return nil
}

func buildC11(needRace bool) (*c11Builds, error) {
	dir, err := ioutil.TempDir("", "verif-c11-")
	if err != nil {
		return nil, err
	}
	b := &c11Builds{dir: dir}
	t0 := time.Now()
	res, err := instr.Generate(h.RepoDir, filepath.Join(dir, "instr"))
	if err != nil {
		return b, fmt.Errorf("instrumenting /repo failed: %v", err)
	}
	b.instr = res
	b.sched = filepath.Join(dir, "verif_sched")
	var wg sync.WaitGroup
	var err1, err2 error
	var out1, out2 []byte
	wg.Add(1)
	go func() {
		defer wg.Done()
		cmd := exec.Command("go", append([]string{"build"}, append(modfileArgs(), "-overlay", res.OverlayPath, "-tags", "verifsched", "-o", b.sched, "./cmd/verif")...)...)
		cmd.Dir = harnessDir()
		cmd.Env = goEnv()
		out1, err1 = cmd.CombinedOutput()
	}()
	if needRace {
		b.race = filepath.Join(dir, "verif_race")
		wg.Add(1)
		go func() {
			defer wg.Done()
			cmd := exec.Command("go", append([]string{"build"}, append(modfileArgs(), "-race", "-o", b.race, "./cmd/verif")...)...)
			cmd.Dir = harnessDir()
			cmd.Env = goEnv()
			out2, err2 = cmd.CombinedOutput()
		}()
	}
	wg.Wait()
	b.buildTime = time.Since(t0).Seconds()
	if err1 != nil {
		return b, fmt.Errorf("instrumented build failed: %v\n%s", err1, out1)
	}
	if err2 != nil {
		return b, fmt.Errorf("-race build failed: %v\n%s", err2, out2)
	}
	return b, nil
}

func runC11(r *h.Run) {
	r.Rule = "schedule exploration on the real read paths: scheduling points are injected before every statement of packages trie, encode, array, index (generated from the current working tree, applied with go build -overlay; sync is routed through a cooperative shim); instances {fresh Complete small, fresh filter with de-duplicated values, fresh Complete with a 257-bit root and short nodes, the same loaded from current bytes, loaded from 0.5.10-allpref (prefix re-encoding), loaded from 0.5.9 (rebuild)} x all unordered pairs (with repetition) of the operation alphabet {Get, Get(absent), GetID, RangeGet, Search, Search(absent), GetI32, Stat, ScanFrom, ScanFromTo, two NewIter+next sequences, String, Marshal, proto.Size} with colliding arguments, plus triples of short operations; plus the family *separate instances*: pairs of operations that each load a stream (0.5.10-allpref, 0.5.11-innpref, current) into an instance of their own and read it, which can only collide on package-level state of the load path (NewSlimTrie and the pre-0.5.10 rebuild are not in this alphabet: the builder ranges over Go maps, whose order the scheduler cannot own, so their step sequences do not replay); (1) every state and transition of the interleaving lattice is covered, states identified by the per-thread step vector while no step changed the deep digest of (instance, package globals), taken after EVERY step (sound because thread-local state is a function of own steps and of shared values that stayed constant); a step that changes the digest disables the cache below it and alternatives are explored to the preemption bound; (2) WITHOUT the cache: all schedules with at most 2 preemptions for two-thread scenarios of at most 170 steps (thorough: 420 steps, and at most 3 preemptions up to 120 steps), and all schedules with at most 1 (thorough 2) preemptions for the three-thread scenarios; oracle: every call returns exactly what it returned alone; replayed prefixes must reproduce the (thread, site) sequence. (3) auxiliary: the same scenario bodies free-running under -race with 2, 3, 8, 32 goroutines. A state is a lattice state; non-trivial = scenario with at least 2 threads (all)"
	r.Assumptions = []string{
		"scheduling granularity is the statement of the instrumented packages; vendored dependencies (openacid/low, protobuf) run atomically within a step, their writes to shared memory are seen by the digest",
		"protobuf's XXX_sizecache and the generated xxx_messageInfo globals are memo fields written with atomics: excluded from the digest",
		"the Go memory model itself is not modelled; the -race pass is dynamic detection, reported separately",
		"goroutines spawned by library code would run outside the scheduler (none exist on read paths today)",
	}
	budget := time.Until(r.Deadline)
	b, err := buildC11(true)
	if b != nil {
		defer os.RemoveAll(b.dir)
	}
	if err != nil {
		r.Infra(err)
		return
	}
	r.Extra["yield_sites"] = b.instr.Sites
	r.Extra["package_globals_in_digest"] = b.instr.Globals
	r.Extra["build_s"] = b.buildTime
	pb := 2
	r.Bounds["preemption_bound_uncached"] = "2 (<= 170 steps quick / <= 420 thorough), 3 (<= 120 steps, thorough)"
	shards := 16
	workerBudget := int((budget.Seconds() - b.buildTime) * 0.55)
	if workerBudget < 20 {
		workerBudget = 20
	}
	results := make([]*c11.WorkerResult, shards)
	errs := make([]error, shards)
	var wg sync.WaitGroup
	ctx, cancel := context.WithCancel(context.Background())
	defer cancel()
	var violFound int32
	for i := 0; i < shards; i++ {
		wg.Add(1)
		go func(i int) {
			defer wg.Done()
			cmd := exec.CommandContext(ctx, b.sched, "c11worker", "--shard", fmt.Sprint(i), "--of", fmt.Sprint(shards), "--seed", fmt.Sprint(r.Seed), "--tier", r.Tier, "--budget", fmt.Sprint(workerBudget), "--pb", fmt.Sprint(pb))
			cmd.Env = append(os.Environ(), "GOMAXPROCS=1")
			var stderr bytes.Buffer
			cmd.Stderr = &stderr
			out, err := cmd.Output()
			if err != nil {
				if atomic.LoadInt32(&violFound) == 1 {
					// stopped because another shard found a violation
					results[i] = &c11.WorkerResult{Shard: i, DeadlineHit: true}
					return
				}
				errs[i] = fmt.Errorf("worker %d failed: %v\n%s", i, err, tail(stderr.String(), 2000))
				return
			}
			var wr c11.WorkerResult
			if err := json.Unmarshal(lastLine(out), &wr); err != nil {
				errs[i] = fmt.Errorf("worker %d: bad output: %v", i, err)
				return
			}
			results[i] = &wr
			if wr.Violation != nil {
				atomic.StoreInt32(&violFound, 1)
				cancel() // the first violation ends the exploration
			}
		}(i)
	}
	wg.Wait()
	w := r.W0()
	var viol *sched.Violation
	completed, scenarios := 0, 0
	var bounded int64
	var writes, unexplorable []string
	for i, wr := range results {
		if errs[i] != nil {
			r.Infra(errs[i])
			return
		}
		if len(wr.Unexplorable) > 0 {
			unexplorable = append(unexplorable, wr.Unexplorable...)
		}
		if wr.Error != "" {
			r.Infra(fmt.Errorf("worker %d: %s", i, wr.Error))
			return
		}
		w.Evals += wr.Runs + wr.BoundedRuns
		w.Trans += wr.Steps
		w.StatesN += wr.States
		w.NontrivN += wr.States
		scenarios += wr.Scenarios
		completed += wr.Completed
		bounded += wr.BoundedRuns
		writes = append(writes, wr.WriteScen...)
		if wr.DeadlineHit {
			r.MarkIncomplete("schedule exploration")
		}
		if wr.Violation != nil && viol == nil {
			viol = wr.Violation
		}
		for _, s := range wr.Samples {
			w.Sample(s)
		}
		w.FeatureN("digest_changing_steps", wr.DigestChg)
		if int64(wr.MaxStepsOp) > w.Features["max_steps_of_one_operation"] {
			w.Features["max_steps_of_one_operation"] = int64(wr.MaxStepsOp)
		}
	}
	r.Extra["scenarios"] = scenarios
	r.Extra["scenarios_explored_completely"] = completed
	r.Extra["schedules_uncached_preemption_bounded"] = bounded
	if len(unexplorable) > 0 {
		// not a violation and not explored: said so in the evidence
		r.Extra["scenarios_blocking_outside_the_scheduler"] = unexplorable
		r.MarkIncomplete("a scenario blocks outside the scheduler's control (left to the free-running pass)")
	}
	if len(writes) > 0 {
		r.Extra["scenarios_in_which_a_read_wrote_shared_state"] = writes
	}
	if viol != nil {
		// confirm: the same schedule must fail twice
		cj := c11Case{Seed: r.Seed, Tier: r.Tier, Violation: *viol}
		ok, detail := confirmSchedule(b, cj)
		if !ok {
			r.Infra(fmt.Errorf("a violating schedule did not reproduce on replay (%s): nondeterminism not under control", detail))
			return
		}
		w.Report(h.Viol{Sig: "concurrent-result-differs", Msg: fmt.Sprintf("scenario %s: thread %d (%s) returned %s in an interleaving of %d steps, alone it returns %s", viol.Scenario, viol.Thread, viol.Ops[viol.Thread], cutS(viol.Got), len(viol.Schedule), cutS(viol.Want)), Kind: "c11", Case: cj, Unit: 1})
		return
	}
	// (3) free-running -race pass over the same bodies
	raceBudget := int(time.Until(r.Deadline).Seconds() * 0.8)
	if raceBudget < 15 {
		raceBudget = 15
	}
	logPrefix := filepath.Join(b.dir, "race")
	cmd := exec.Command(b.race, "c11race", "--seed", fmt.Sprint(r.Seed), "--tier", r.Tier, "--budget", fmt.Sprint(raceBudget))
	cmd.Env = append(os.Environ(), "GORACE=halt_on_error=1 exitcode=66 log_path="+logPrefix)
	var stderr bytes.Buffer
	cmd.Stderr = &stderr
	out, err := cmd.Output()
	if err != nil {
		if ee, ok := err.(*exec.ExitError); ok && ee.ExitCode() == 66 {
			rep := ""
			if files, _ := filepath.Glob(logPrefix + ".*"); len(files) > 0 {
				bb, _ := ioutil.ReadFile(files[0])
				rep = string(bb)
			}
			w.Report(h.Viol{Sig: "data-race", Msg: "the race detector reports a data race between concurrent readers: " + firstLines(rep, 12), Kind: "c11", Case: c11Case{Seed: r.Seed, Tier: r.Tier, Race: tail(rep, 6000)}, Unit: 2})
			return
		}
		r.Infra(fmt.Errorf("race pass failed: %v\n%s", err, tail(stderr.String(), 2000)))
		return
	}
	var rr c11.RaceResult
	if err := json.Unmarshal(lastLine(out), &rr); err != nil {
		r.Infra(fmt.Errorf("race pass: bad output: %v", err))
		return
	}
	if rr.Mismatch != "" {
		w.Report(h.Viol{Sig: "concurrent-result-differs-free-running", Msg: rr.Mismatch, Kind: "c11", Case: c11Case{Seed: r.Seed, Tier: r.Tier, Race: rr.Mismatch}, Unit: 3})
		return
	}
	r.Extra["race_pass"] = map[string]interface{}{"scenarios": rr.Scenarios, "goroutine_executions": rr.Executions, "goroutine_counts": rr.Goroutines, "race_reports": 0, "note": "auxiliary dynamic detection, not enumeration"}
	r.TracesValidated = w.Evals
}

func cutS(s string) string {
	if len(s) > 120 {
		return s[:120] + "..."
	}
	return s
}

func tail(s string, n int) string {
	if len(s) > n {
		return s[len(s)-n:]
	}
	return s
}

func firstLines(s string, n int) string {
	l := strings.Split(s, "\n")
	if len(l) > n {
		l = l[:n]
	}
	return strings.Join(l, " / ")
}

func lastLine(b []byte) []byte {
	b = bytes.TrimRight(b, "\n")
	if i := bytes.LastIndexByte(b, '\n'); i >= 0 {
		return b[i+1:]
	}
	return b
}

// confirmSchedule replays a violating schedule twice in the instrumented binary.
func confirmSchedule(b *c11Builds, cj c11Case) (bool, string) {
	f := filepath.Join(b.dir, "viol.json")
	bb, _ := json.Marshal(cj.Violation)
	ioutil.WriteFile(f, bb, 0644)
	for i := 0; i < 2; i++ {
		cmd := exec.Command(b.sched, "c11replay", "--file", f, "--seed", fmt.Sprint(cj.Seed), "--tier", cj.Tier)
		cmd.Env = append(os.Environ(), "GOMAXPROCS=1")
		out, err := cmd.Output()
		if err != nil {
			return false, err.Error()
		}
		var res struct {
			Results []string `json:"results"`
			Solo    []string `json:"solo"`
			Error   string   `json:"error"`
		}
		if err := json.Unmarshal(lastLine(out), &res); err != nil {
			return false, err.Error()
		}
		if res.Error != "<nil>" {
			return false, res.Error
		}
		t := cj.Violation.Thread
		if t >= len(res.Results) || res.Results[t] == res.Solo[t] {
			return false, "the thread returned its solo result on replay"
		}
	}
	return true, ""
}

func replayC11(prop string, raw []byte) *h.Viol {
	var cj c11Case
	if err := jsonUnmarshal(raw, &cj); err != nil {
		return &h.Viol{Msg: err.Error()}
	}
	needRace := cj.Race != ""
	b, err := buildC11(needRace)
	if b != nil {
		defer os.RemoveAll(b.dir)
	}
	if err != nil {
		return &h.Viol{Msg: "cannot build the instrumented harness: " + err.Error()}
	}
	if needRace {
		logPrefix := filepath.Join(b.dir, "race")
		cmd := exec.Command(b.race, "c11race", "--seed", fmt.Sprint(cj.Seed), "--tier", cj.Tier, "--budget", "60")
		cmd.Env = append(os.Environ(), "GORACE=halt_on_error=1 exitcode=66 log_path="+logPrefix)
		out, err := cmd.Output()
		if err != nil {
			return &h.Viol{Sig: "data-race", Msg: "the free-running -race pass fails again: " + err.Error()}
		}
		var rr c11.RaceResult
		json.Unmarshal(lastLine(out), &rr)
		if rr.Mismatch != "" {
			return &h.Viol{Sig: "concurrent-result-differs-free-running", Msg: rr.Mismatch}
		}
		return nil
	}
	ok, _ := confirmSchedule(b, cj)
	if ok {
		v := cj.Violation
		return &h.Viol{Sig: "concurrent-result-differs", Msg: fmt.Sprintf("scenario %s: thread %d returns %s under the recorded schedule, alone %s", v.Scenario, v.Thread, cutS(v.Got), cutS(v.Want))}
	}
	return nil
}
