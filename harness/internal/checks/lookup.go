package checks

import (
	"fmt"
	"sort"
	"time"

	"github.com/openacid/slim/trie"
	"verif/internal/h"
)

func init() {
	trieOracles["C01"] = oracleC01
	trieOracles["C02"] = oracleC02
	trieOracles["C03"] = oracleC03
	trieOracles["C09"] = oracleC09
	trieOracles["C10"] = oracleC10
	Replayers["trie"] = func(prop string, raw []byte) *h.Viol {
		var tj trieCaseJSON
		if err := jsonUnmarshal(raw, &tj); err != nil {
			return &h.Viol{Msg: "bad replay payload: " + err.Error()}
		}
		return replayTrie(prop, tj)
	}
	mc := "model_checking"
	register(&Check{ID: "C01", Level: mc, Run: func(r *h.Run) { runLookup(r, "C01") }, QuickBudget: 400 * time.Second, ThoroughBudget: 40 * time.Minute})
	register(&Check{ID: "C02", Level: mc, Run: func(r *h.Run) { runLookup(r, "C02") }, QuickBudget: 400 * time.Second, ThoroughBudget: 40 * time.Minute})
	register(&Check{ID: "C03", Level: mc, Run: func(r *h.Run) { runLookup(r, "C03") }, QuickBudget: 400 * time.Second, ThoroughBudget: 40 * time.Minute})
	register(&Check{ID: "C09", Level: mc, Run: func(r *h.Run) { runLookup(r, "C09") }, QuickBudget: 400 * time.Second, ThoroughBudget: 40 * time.Minute})
	register(&Check{ID: "C10", Level: mc, Run: func(r *h.Run) { runLookup(r, "C10") }, QuickBudget: 600 * time.Second, ThoroughBudget: 40 * time.Minute})
}

func runLookup(r *h.Run, prop string) {
	p := defaultProfile()
	p.revSweep = true
	var accept func(c *h.Case) bool
	switch prop {
	case "C01":
		p.needQs = false
		p.thoroughScafK = 4
		r.Rule = "every key list of the bounded spaces (all subsets of U(Sigma4,2) up to the tier's size, every scaffold applied to every smaller subset, regular large families) x every run pattern of equal adjacent values and nil values x encoders {I32 everywhere; String16, VarEnc (may encode to empty) on sets of <= 3 keys} x all 16 Boolean option combinations + the no-Opt call form x instances {fresh, Unmarshal(Marshal), proto.Unmarshal(proto.Marshal)}; oracle: Get on every retained key returns (Decode(Encode(v)), true) and GetID >= 0. A state is a distinct (marshaled bytes, options, encoder); non-trivial = at least 2 retained keys"
	case "C02":
		p.needQs = false
		p.thoroughScafK = 4
		r.Rule = "same space as C01; oracle: RangeGet on EVERY input key (retained or de-duplicated away) returns (value supplied for that key, true); value-less tries: (nil, true)"
	case "C03":
		p.opts = []h.Opt4{{D: 1, I: 0, L: 0, C: 1}, {D: 0, I: 0, L: 0, C: 1}, {D: 1, I: 1, L: 1, C: 0}, {D: 0, I: 1, L: 1, C: 0}, {D: 1, I: 1, L: 0, C: 1}, {D: 0, I: 0, L: 1, C: 1}, {D: 1, I: 1, L: 1, C: 1}, {D: 0, I: 1, L: 1, C: 1}}
		p.u85k4 = true
		p.noOptArg = false
		r.Rule = "complete modes only (all 8 Boolean combinations that normalise to both prefixes stored); same key/value space as C01; every query of Q = U(Sigma4+{m},L+1) + long/extreme strings (+ per-key bit flips, prefixes, extensions on small lists), lifted and unlifted under scaffolds; oracle: sorted retained list: Get/GetID found iff member, RangeGet = value of max{r<=q}, Search = (max{r<q}, q, min{r>q}) values, nil where none"
	case "C09":
		p.needQs = false
		p.thoroughScafK = 4
		r.Rule = "same space as C01; oracle: for every retained key r_i Search(r_i) = (v_{i-1}|nil, v_i, v_{i+1}|nil) in all option combinations and instances; value-less tries: three nils"
	case "C10":
		r.Rule = "same space as C01 with every query of Q (incl. 300-byte, all-00, all-ff strings; per-key mutations; lifted and unlifted) in every mode, with and without values; oracle: no panic; Get found => value in the supplied retained values; Get found <=> GetID>=0; Search middle non-nil <=> Get found, equal; Get found => RangeGet found, same value"
	}
	r.Assumptions = []string{
		"small-scope hypothesis: 4-symbol alphabets (seed-rotated), <= 4 (quick) / 6 (thorough) free keys per set, scaffolds for big nodes / short tables / bit-offset shifts",
		"expected values are Decode(Encode(v)) with the library's own encoder (encoders are decided by C15)",
		"a NewSlimTrie rejection of a valid list is counted as don't-care here and decided by C08",
	}
	if p.needQs && r.Tier == "quick" {
		drop := map[string]bool{"lift1": true, "bigroot-lo": true, "bigroot-hi": true, "short3": true, "shift2": true, "shift5": true, "shift11": true}
		p.scaffoldFilter = func(n string) bool { return !drop[n] }
	}
	phases := buildPhases(r, p)
	runTriePass(r, phases, trieOracles[prop], accept)
}

// ---------- C01 ----------
func oracleC01(w *h.Worker, b *h.Built, inst string, st *trie.SlimTrie, u *inputSpec) *h.Viol {
	for x := range b.Kept {
		i := b.Kept[ord(w, len(b.Kept), x)]
		k := b.Keys[i]
		v, found := st.Get(k)
		id := st.GetID(k)
		w.Trans += 2
		want := b.WantVal(i)
		if !found {
			return &h.Viol{Sig: "get-false-negative", Msg: fmt.Sprintf("Get(%x) on retained key reports not found", k)}
		}
		if !b.Match(i, v) {
			return &h.Viol{Sig: "get-wrong-value", Msg: fmt.Sprintf("Get(%x) = %T(%v), want %T(%v)", k, v, v, want, want)}
		}
		if id < 0 {
			return &h.Viol{Sig: "getid-negative", Msg: fmt.Sprintf("GetID(%x) = %d on retained key", k, id)}
		}
	}
	return nil
}

// ---------- C02 ----------
func oracleC02(w *h.Worker, b *h.Built, inst string, st *trie.SlimTrie, u *inputSpec) *h.Viol {
	for x := range b.Keys {
		i := ord(w, len(b.Keys), x)
		k := b.Keys[i]
		v, found := st.RangeGet(k)
		w.Trans++
		want := b.WantVal(i)
		if !found {
			return &h.Viol{Sig: "rangeget-not-found", Msg: fmt.Sprintf("RangeGet(%x) on indexed key (#%d) reports not found", k, i)}
		}
		if !b.Match(i, v) {
			return &h.Viol{Sig: "rangeget-wrong-value", Msg: fmt.Sprintf("RangeGet(%x) (#%d) = %v, want %v", k, i, v, want)}
		}
	}
	return nil
}

// ---------- C03 ----------
func oracleC03(w *h.Worker, b *h.Built, inst string, st *trie.SlimTrie, u *inputSpec) *h.Viol {
	if !b.Opt.IsComplete() {
		return nil
	}
	kept := b.KeptKeys()
	val := func(j int) interface{} {
		if j < 0 {
			return nil
		}
		return b.WantVal(b.Kept[j])
	}
	hasVals := b.Decoded != nil && !b.AllEmpty && b.Enc != "Dummy"
	for _, q := range u.qs {
		l, eq, rr := h.SearchRef(kept, q)
		v, found := st.Get(q)
		id := st.GetID(q)
		w.Trans += 2
		if found != (eq >= 0) {
			return &h.Viol{Sig: "complete-get-foundness", Msg: fmt.Sprintf("Get(%x) found=%v, retained=%v", q, found, eq >= 0)}
		}
		if (id >= 0) != (eq >= 0) {
			return &h.Viol{Sig: "complete-getid-foundness", Msg: fmt.Sprintf("GetID(%x)=%d, retained=%v", q, id, eq >= 0)}
		}
		if found && !b.Match(b.Kept[eq], v) {
			return &h.Viol{Sig: "complete-get-value", Msg: fmt.Sprintf("Get(%x)=%v want %v", q, v, val(eq))}
		}
		// RangeGet: greatest retained <= q
		le := eq
		if le < 0 {
			le = l
		}
		rv, rfound := st.RangeGet(q)
		w.Trans++
		if rfound != (le >= 0) {
			return &h.Viol{Sig: "complete-rangeget-foundness", Msg: fmt.Sprintf("RangeGet(%x) found=%v, want %v", q, rfound, le >= 0)}
		}
		if rfound && !b.Match(b.Kept[le], rv) {
			return &h.Viol{Sig: "complete-rangeget-value", Msg: fmt.Sprintf("RangeGet(%x)=%v want %v", q, rv, val(le))}
		}
		lv, ev, gv := st.Search(q)
		w.Trans++
		if hasVals {
			if !eqVal(lv, val(l)) || !eqVal(ev, val(eq)) || !eqVal(gv, val(rr)) {
				return &h.Viol{Sig: "complete-search", Msg: fmt.Sprintf("Search(%x)=(%v,%v,%v) want (%v,%v,%v)", q, lv, ev, gv, val(l), val(eq), val(rr))}
			}
		} else if lv != nil || ev != nil || gv != nil {
			return &h.Viol{Sig: "complete-search-valueless", Msg: fmt.Sprintf("Search(%x)=(%v,%v,%v) on a trie without materialised values", q, lv, ev, gv)}
		}
	}
	return nil
}

// ---------- C09 ----------
func oracleC09(w *h.Worker, b *h.Built, inst string, st *trie.SlimTrie, u *inputSpec) *h.Viol {
	for x := range b.Kept {
		j := ord(w, len(b.Kept), x)
		i := b.Kept[j]
		k := b.Keys[i]
		lv, ev, gv := st.Search(k)
		w.Trans++
		var wl, wr interface{}
		if j > 0 {
			wl = b.WantVal(b.Kept[j-1])
		}
		if j+1 < len(b.Kept) {
			wr = b.WantVal(b.Kept[j+1])
		}
		we := b.WantVal(i)
		li, ri := -1, -1
		if j > 0 {
			li = b.Kept[j-1]
		}
		if j+1 < len(b.Kept) {
			ri = b.Kept[j+1]
		}
		if !b.Match(i, ev) {
			return &h.Viol{Sig: "search-eq", Msg: fmt.Sprintf("Search(%x) exact = %v want %v", k, ev, we)}
		}
		if !b.Match(li, lv) {
			return &h.Viol{Sig: "search-left", Msg: fmt.Sprintf("Search(%x) left = %v want %v", k, lv, wl)}
		}
		if !b.Match(ri, gv) {
			return &h.Viol{Sig: "search-right", Msg: fmt.Sprintf("Search(%x) right = %v want %v", k, gv, wr)}
		}
	}
	return nil
}

// ---------- C10 ----------
func oracleC10(w *h.Worker, b *h.Built, inst string, st *trie.SlimTrie, u *inputSpec) *h.Viol {
	supplied := map[string]bool{}
	for _, i := range b.Kept {
		supplied[valKey(b.WantVal(i))] = true
	}
	hasVals := b.Decoded != nil && !b.AllEmpty && b.Enc != "Dummy"
	qs := u.qs
	if len(b.Keys) == 0 && len(qs) == 0 {
		qs = []string{"", "\x00", "\xff"}
	}
	for _, q := range qs {
		var v, rv, lv, ev, gv interface{}
		var found, rfound bool
		var id int32
		if p := h.Safely(func() {
			v, found = st.Get(q)
			id = st.GetID(q)
			rv, rfound = st.RangeGet(q)
			lv, ev, gv = st.Search(q)
		}); p != nil {
			return &h.Viol{Sig: "lookup-panic", Msg: fmt.Sprintf("lookup of %s panicked: %v", briefQ(q), p)}
		}
		_, _ = lv, gv
		w.Trans += 4
		if found {
			w.Outcome("hit")
		} else {
			w.Outcome("miss")
		}
		if found != (id >= 0) {
			return &h.Viol{Sig: "get-getid-disagree", Msg: fmt.Sprintf("Get(%s) found=%v but GetID=%d", briefQ(q), found, id)}
		}
		if found && !supplied[valKey(v)] {
			return &h.Viol{Sig: "hit-with-unsupplied-value", Msg: fmt.Sprintf("Get(%s) = %v which was never supplied", briefQ(q), v)}
		}
		if hasVals {
			if (ev != nil) != found {
				return &h.Viol{Sig: "search-get-disagree", Msg: fmt.Sprintf("Get(%s) found=%v but Search exact=%v", briefQ(q), found, ev)}
			}
			if found && !eqVal(ev, v) {
				return &h.Viol{Sig: "search-get-value", Msg: fmt.Sprintf("Get(%s)=%v but Search exact=%v", briefQ(q), v, ev)}
			}
		}
		if found {
			if !rfound {
				return &h.Viol{Sig: "rangeget-misses-get-hit", Msg: fmt.Sprintf("Get(%s) found but RangeGet not", briefQ(q))}
			}
			if !eqVal(rv, v) {
				return &h.Viol{Sig: "rangeget-get-value", Msg: fmt.Sprintf("Get(%s)=%v but RangeGet=%v", briefQ(q), v, rv)}
			}
		}
	}
	return nil
}

// ord maps the x-th step of a sweep to an index: ascending, or descending in the second sweep.
func ord(w *h.Worker, n, x int) int {
	if w.Rev {
		return n - 1 - x
	}
	return x
}

func briefQ(q string) string {
	if len(q) > 24 {
		return fmt.Sprintf("%x..(%dB)", q[:12], len(q))
	}
	return fmt.Sprintf("%x", q)
}

var _ = sort.Strings
