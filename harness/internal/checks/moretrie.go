package checks

import (
	"fmt"
	"reflect"
	"regexp"
	"strings"
	"time"

	"github.com/openacid/slim/encode"
	"github.com/openacid/slim/trie"
	"verif/internal/h"
	"verif/internal/legacy"
)

func init() {
	trieOracles["C14"] = oracleC14
	trieOracles["C18"] = oracleC18
	trieOracles["C19"] = oracleC19
	mc := "model_checking"
	register(&Check{ID: "C13", Level: mc, Run: runC13, QuickBudget: 400 * time.Second, ThoroughBudget: 40 * time.Minute})
	register(&Check{ID: "C14", Level: mc, Run: runC14, QuickBudget: 400 * time.Second, ThoroughBudget: 40 * time.Minute})
	register(&Check{ID: "C18", Level: mc, Run: runC18, QuickBudget: 400 * time.Second, ThoroughBudget: 40 * time.Minute})
	register(&Check{ID: "C19", Level: mc, Run: runC19, QuickBudget: 400 * time.Second, ThoroughBudget: 40 * time.Minute})
	Replayers["c13"] = replayC13
}

var commonAssumptions = []string{
	"small-scope hypothesis: 4-symbol alphabets (seed-rotated), <= 4 (quick) / 6 (thorough) free keys per set, scaffolds for big nodes / short tables / bit-offset shifts",
	"expected values are Decode(Encode(v)) with the library's own encoder (encoders are decided by C15)",
	"a NewSlimTrie rejection of a valid list is counted as don't-care here and decided by C08",
}

// ---------- C13: storing more key information only removes false positives ----------

type c13Case struct {
	h.CaseJSON
	QueriesHex []string `json:"queries_hex,omitempty"`
	Inst       string   `json:"instance"`
}

// prefix configurations ordered by stored information
var c13Modes = []struct {
	name string
	i, l int8
}{{"both", 1, 1}, {"inner", 1, 0}, {"leaf", 0, 1}, {"none", 0, 0}}

// (more, less) pairs
var c13Pairs = [][2]int{{0, 1}, {0, 2}, {1, 3}, {2, 3}, {0, 3}}

func evalC13(w *h.Worker, c *h.Case, qs []string, inst string, record bool) *h.Viol {
	var sts [4]*trie.SlimTrie
	var bs [4]*h.Built
	for m, md := range c13Modes {
		cc := *c
		cc.Opt = h.Opt4{D: c.Opt.D, I: md.i, L: md.l, C: 0}
		if m == 0 && c.Opt.C == 1 {
			// the Complete flag is another way to ask for both
			cc.Opt = h.Opt4{D: c.Opt.D, I: 0, L: 0, C: 1}
		}
		b, p := h.Build(&cc)
		if p != nil || b.Err != nil {
			if record {
				w.DontCare++
				w.Feature("build_rejected_or_panicked")
			}
			return nil
		}
		bs[m] = b
		st := b.ST
		if inst != h.InstFresh {
			var lerr error
			if pp := h.Safely(func() {
				mm, err := b.Instances([]string{inst})
				lerr = err
				if err == nil {
					st = mm[inst]
				}
			}); pp != nil || lerr != nil {
				return &h.Viol{Sig: "load-failed", Msg: fmt.Sprintf("loading %s instance failed: %v %v", inst, pp, lerr)}
			}
		}
		sts[m] = st
		if record {
			w.Evals++
			w.Tick()
			stream, _ := b.ST.Marshal()
			w.State(h.Hash64(stream, []byte(cc.Opt.String()), []byte(c.Enc)), len(b.Kept) >= 2)
			if m == 0 {
				measure(w, b, stream)
			}
		}
	}
	kept := map[string]bool{}
	for _, k := range bs[0].KeptKeys() {
		kept[k] = true
	}
	type ans struct {
		v     interface{}
		found bool
	}
	var res [4]ans
	var viol *h.Viol
	for _, q := range qs {
		if p := h.Safely(func() {
			for m := range sts {
				res[m].v, res[m].found = sts[m].Get(q)
			}
		}); p != nil {
			return &h.Viol{Sig: "lookup-panic", Msg: fmt.Sprintf("Get(%s) panicked: %v", briefQ(q), p)}
		}
		w.Trans += 4
		nfound := 0
		for m := range res {
			if res[m].found {
				nfound++
			}
		}
		w.Outcome(fmt.Sprintf("found_in_%d_of_4_modes", nfound))
		for _, pr := range c13Pairs {
			more, less := res[pr[0]], res[pr[1]]
			if more.found && (!less.found || !eqVal(more.v, less.v)) {
				viol = &h.Viol{Sig: "more-info-adds-hit", Msg: fmt.Sprintf("query %s: mode %s reports (%v,true) but mode %s reports (%v,%v)", briefQ(q), c13Modes[pr[0]].name, more.v, c13Modes[pr[1]].name, less.v, less.found)}
				return viol
			}
		}
		if res[0].found && !kept[q] {
			return &h.Viol{Sig: "complete-false-positive", Msg: fmt.Sprintf("complete mode reports found for non-retained %s", briefQ(q))}
		}
		if kept[q] {
			for m := range res {
				if !res[m].found || !eqVal(res[m].v, res[0].v) {
					return &h.Viol{Sig: "modes-differ-on-retained-key", Msg: fmt.Sprintf("retained key %s: mode %s reports (%v,%v), mode both (%v,%v)", briefQ(q), c13Modes[m].name, res[m].v, res[m].found, res[0].v, res[0].found)}
				}
			}
		}
	}
	return nil
}

func runC13(r *h.Run) {
	p := defaultProfile()
	p.opts = []h.Opt4{{D: 1, I: 0, L: 0, C: 0}, {D: 0, I: 0, L: 0, C: 0}, {D: 1, I: 0, L: 0, C: 1}}
	p.noOptArg = false
	p.insts = []string{h.InstFresh, h.InstUnm, h.InstUnmUsed}
	r.Rule = "same key/value space as C01; for every input and both DedupValue settings the four prefix configurations (both, inner, leaf, none; 'both' also through the Complete flag) are built from the one input and every query of Q is asked of all four; oracle over the ordered pairs (both,inner),(both,leaf),(inner,none),(leaf,none),(both,none): found_more => found_less with the same value; both-found => retained; all modes identical on retained keys. A state is a distinct (marshaled bytes, options, encoder)"
	r.Assumptions = commonAssumptions
	if r.Tier == "quick" {
		drop := map[string]bool{"lift1": true, "bigroot-lo": true, "bigroot-hi": true, "short3": true, "shift2": true, "shift5": true, "shift11": true}
		p.scaffoldFilter = func(n string) bool { return !drop[n] }
	}
	phases := buildPhases(r, p)
	for _, ph := range phases {
		ph := ph
		r.Phase(ph.name, ph.gen, func(w *h.Worker, x interface{}) {
			u := x.(*inputSpec)
			w.Begin(func() string { return fmt.Sprintf("C13 unit %s keys=%d", u.sc.Name, len(u.sc.Keys)) })
			qs := append(append([]string{}, u.qs...), u.sc.Keys...)
			u.cases(func(c *h.Case) bool {
				for _, inst := range u.insts {
					if inst == h.InstProto {
						continue
					}
					v := evalC13(w, c, qs, inst, inst == h.InstFresh)
					if v != nil {
						cj := c13Case{CaseJSON: c.JSON(), Inst: inst}
						if len(qs) <= 2000 {
							for _, q := range qs {
								cj.QueriesHex = append(cj.QueriesHex, fmt.Sprintf("%x", q))
							}
						}
						v.Msg += " | " + c.Brief() + " inst=" + inst
						v.Kind, v.Case, v.Unit = "c13", cj, w.Unit()
						if w.Report(*v) {
							return false
						}
						return !w.Stopped()
					}
				}
				w.Sample(map[string]interface{}{"scaffold": u.sc.Name, "case": c.Brief(), "queries": len(qs), "modes": "both,inner,leaf,none"})
				return !w.Stopped()
			})
		})
	}
}

func replayC13(prop string, raw []byte) *h.Viol {
	var cj c13Case
	if err := jsonUnmarshal(raw, &cj); err != nil {
		return &h.Viol{Msg: err.Error()}
	}
	var qs []string
	for _, qh := range cj.QueriesHex {
		var b []byte
		fmt.Sscanf(qh, "%x", &b)
		qs = append(qs, string(b))
	}
	c := cj.CaseJSON.Case()
	if len(qs) == 0 {
		qs = c.Keys
	}
	w := h.NewRun(prop, "quick", 0, "model_checking", 0).W0()
	return evalC13(w, c, qs, cj.Inst, false)
}

// ---------- C14: typed getters agree with Get ----------

func oracleC14(w *h.Worker, b *h.Built, inst string, st *trie.SlimTrie, u *inputSpec) *h.Viol {
	width, _, ok := laneWidth(b.Enc)
	if !ok || b.Decoded == nil {
		return nil
	}
	qs := append(append([]string{}, u.qs...), b.Keys...)
	for _, q := range qs {
		var gv interface{}
		var gfound, tfound bool
		var tv int64
		if p := h.Safely(func() {
			gv, gfound = st.Get(q)
			switch width {
			case 1:
				x, f := st.GetI8(q)
				tv, tfound = int64(x), f
			case 2:
				x, f := st.GetI16(q)
				tv, tfound = int64(x), f
			case 4:
				x, f := st.GetI32(q)
				tv, tfound = int64(x), f
			case 8:
				x, f := st.GetI64(q)
				tv, tfound = int64(x), f
			}
		}); p != nil {
			return &h.Viol{Sig: "typed-getter-panic", Msg: fmt.Sprintf("GetI%d(%s) / Get panicked: %v", width*8, briefQ(q), p)}
		}
		w.Trans += 2
		if gfound {
			w.Outcome("hit")
		} else {
			w.Outcome("miss")
		}
		if gfound != tfound {
			return &h.Viol{Sig: "typed-getter-foundness", Msg: fmt.Sprintf("GetI%d(%s) found=%v but Get found=%v", width*8, briefQ(q), tfound, gfound)}
		}
		var want int64
		if gfound {
			want = reflect.ValueOf(gv).Int()
		}
		if tv != want {
			return &h.Viol{Sig: "typed-getter-value", Msg: fmt.Sprintf("GetI%d(%s) = %d but Get = %v (found=%v)", width*8, briefQ(q), tv, gv, gfound)}
		}
	}
	return nil
}

func laneWidth(enc string) (int, int, bool) {
	i := strings.Index(enc, "L:")
	if i < 0 || (enc[0] != 'I' && enc[0] != 'T') {
		return 0, 0, false
	}
	var wd, rot int
	fmt.Sscanf(enc[1:i], "%d", &wd)
	fmt.Sscanf(enc[i+2:], "%d", &rot)
	return wd / 8, rot, true
}

func runC14(r *h.Run) {
	p := defaultProfile()
	p.nilVals = false
	p.noOptArg = false
	p.encsMain = []string{"I8L:0", "I16L:0", "I32L:0", "I64L:0"}
	p.encsSmall = nil
	for rot := 5; rot <= 40; rot += 5 {
		for _, wd := range []int{8, 16, 32, 64} {
			p.encsSmall = append(p.encsSmall, fmt.Sprintf("I%dL:%d", wd, rot))
		}
	}
	// the same widths through a TypeEncoder (default byte order) on the small sets
	p.encsSmall = append(p.encsSmall, "T8L:0", "T16L:0", "T32L:0", "T64L:0")
	p.insts = []string{h.InstFresh, h.InstUnm, h.InstUnmUsed}
	p.many = true
	p.scaffoldFilter = func(n string) bool {
		return strings.HasPrefix(n, "short") || strings.HasPrefix(n, "shift") || n == "bigroot-in" || n == "lift3"
	}
	if r.Tier == "quick" {
		p.scaffoldFilter = func(n string) bool {
			return n == "short2-mixed" || n == "shift3" || n == "shift30" || n == "shift64" || n == "bigroot-in"
		}
	}
	r.Rule = "key space as C01 restricted to tries with values; encoders I8/I16/I32/I64 with values drawn from the lane alphabet {00,01,7f,80,ff}^width starting with min, max, -1, 0, 1 (the table is rotated 8 more times on sets of <= 3 keys), every run pattern, options, {fresh, loaded}; every query of Q plus all keys; oracle: GetIxx(q) = (Get(q) value, found), (0,false) when not found; plus tries loaded from every historical layout (writer models, conformance-checked) for K(U21,2), scaffolds and sweep offsets around 64 leaves: GetI32 agrees with Get on every query (also in panicking)"
	r.Assumptions = commonAssumptions
	phases := buildPhases(r, p)
	runTriePass(r, phases, oracleC14, nil)

	// loaded tries also means tries loaded from the historical layouts (their
	// values are 4-byte little-endian integers: GetI32 applies)
	if !conformLegacy(r) {
		return
	}
	sp := newSpaceCtx(r.Seed)
	layouts := legacyLayouts()
	scs := scaffoldSet(sp, r.Tier == "thorough", []int{2, 3}, func(n string) bool {
		return n == "shift64" || n == "shift30" || n == "shift3" || n == "short2-mixed" || n == "bigroot-in" || n == "big2-in" || n == "lift3"
	})
	type lu struct {
		keys []string
		qs   []string
		name string
	}
	r.Phase("legacy-loaded", func(emit func(u interface{}) bool) {
		it := h.NewSubsetIter(len(sp.u2), 0, 2)
		for idx := it.Next(); idx != nil; idx = it.Next() {
			S := h.Pick(sp.u2, idx)
			if !emit(lu{S, sp.q2, "subset"}) {
				return
			}
			if len(idx) == 2 && (idx[0]+idx[1])%8 != 0 {
				continue
			}
			for _, sc := range scs {
				s := sc.Apply(S)
				if !emit(lu{s.Keys, queriesFor(s, sp.q2, false, false), "scaffold:" + s.Name}) {
					return
				}
			}
		}
		for k := 60; k <= 70; k++ {
			s := h.ScaffoldFixed(fmt.Sprintf("sweep%d", k), h.SweepFiller(k), "\xff").Apply([]string{"", "\x0f", "\xf0\xff"})
			if !emit(lu{s.Keys, queriesFor(s, sp.q2, false, false), "scaffold:" + s.Name}) {
				return
			}
		}
		sweep, cov := legacy.OldIDSweep()
		r.Bounds["old_id_sweep"] = fmt.Sprintf("%d key lists; (node count, highest inner id, highest step id, highest leaf id) of the pre-0.5.10 trie reach %d of 4 x 64 residues modulo 64", len(sweep), cov)
		for i, keys := range sweep {
			if !emit(lu{keys, keys, fmt.Sprintf("old-id-sweep(%03d)", i)}) {
				return
			}
		}
	}, func(w *h.Worker, x interface{}) {
		u := x.(lu)
		w.Begin(func() string { return "C14 legacy " + u.name })
		vals := legacyVals(len(u.keys))
		for li := range layouts {
			l := &layouts[li]
			stream := l.write(u.keys, vals)
			st, err, p := loadLegacy(stream, false)
			if err != nil || p != nil {
				w.DontCare++ // loadability is C06's business
				continue
			}
			w.Evals++
			w.Tick()
			w.State(h.Hash64([]byte(l.Name), stream), len(u.keys) >= 2)
			qs := append(append([]string{}, u.qs...), u.keys...)
			for _, q := range qs {
				var gv interface{}
				var gfound, tfound, gpanic, tpanic bool
				var tv int32
				if p := h.Safely(func() { gv, gfound = st.Get(q) }); p != nil {
					gpanic = true
				}
				if p := h.Safely(func() { tv, tfound = st.GetI32(q) }); p != nil {
					tpanic = true
				}
				w.Trans += 2
				bad := gpanic != tpanic || gfound != tfound
				if !bad && gfound && !gpanic {
					if x, ok := gv.(int32); !ok || x != tv {
						bad = true
					}
				}
				if !bad && !gfound && tv != 0 {
					bad = true
				}
				if bad {
					v := h.Viol{Sig: "typed-getter-legacy", Msg: fmt.Sprintf("%s stream: GetI32(%s) = (%d,%v, panic=%v) but Get = (%v,%v, panic=%v) | %s keys=%d", l.Name, briefQ(q), tv, tfound, tpanic, gv, gfound, gpanic, u.name, len(u.keys)),
						Kind: "c06", Case: c06Case{Layout: l.Name, KeysHex: hexKeys(u.keys), QueriesHex: []string{fmt.Sprintf("%x", q)}}, Unit: w.Unit()}
					w.Report(v)
					return
				}
			}
		}
		w.Sample(map[string]interface{}{"legacy_loaded": u.name, "keys": len(u.keys), "layouts": len(layouts)})
	})
}

// ---------- C18: Stat ----------

func oracleC18(w *h.Worker, b *h.Built, inst string, st *trie.SlimTrie, u *inputSpec) *h.Viol {
	n := len(b.Kept)
	// the node structure depends on the keys and on de-duplication only, not on
	// which prefixes are stored: render the modes without stored prefixes, and
	// Complete on lists of up to 30 keys
	noPref := b.Opt.I <= 0 && b.Opt.L <= 0 && b.Opt.C <= 0
	render := inst == h.InstFresh && n >= 1 && len(b.Keys) <= 400 && ((len(b.Keys) >= 5 && (noPref || len(b.Keys) <= 30)) || b.Opt == (h.Opt4{D: 1, I: 0, L: 0, C: 0}))
	s, v := checkStat(w, st, n, len(b.Keys), render)
	if v != nil {
		return v
	}
	if inst != h.InstFresh {
		fs := b.ST.Stat()
		if !reflect.DeepEqual(fs, s) {
			return &h.Viol{Sig: "stat-roundtrip", Msg: fmt.Sprintf("Stat of %s instance %+v differs from fresh %+v", inst, *s, *fs)}
		}
	}
	return nil
}

// checkStat applies the clauses of C18 to one instance that holds n retained
// keys (built from nInput keys); render: also compare the level table with the
// per-depth node counts of the String() rendering.
func checkStat(w *h.Worker, st *trie.SlimTrie, n, nInput int, render bool) (*trie.Stat, *h.Viol) {
	s := st.Stat()
	w.Trans++
	if int(s.KeyCnt) != n {
		return s, &h.Viol{Sig: "stat-keycnt", Msg: fmt.Sprintf("Stat().KeyCnt = %d, retained keys = %d", s.KeyCnt, n)}
	}
	if int(s.LevelCnt) != len(s.Levels) || len(s.Levels) == 0 {
		return s, &h.Viol{Sig: "stat-levelcnt", Msg: fmt.Sprintf("LevelCnt = %d, len(Levels) = %d", s.LevelCnt, len(s.Levels))}
	}
	var prev struct{ Total, Inner, Leaf int32 }
	for i, l := range s.Levels {
		if l.Total != l.Inner+l.Leaf {
			return s, &h.Viol{Sig: "stat-level-sum", Msg: fmt.Sprintf("level %d: total %d != inner %d + leaf %d", i, l.Total, l.Inner, l.Leaf)}
		}
		if l.Total < prev.Total || l.Inner < prev.Inner || l.Leaf < prev.Leaf {
			return s, &h.Viol{Sig: "stat-level-decreases", Msg: fmt.Sprintf("level %d: (%d,%d,%d) decreases from (%d,%d,%d)", i, l.Total, l.Inner, l.Leaf, prev.Total, prev.Inner, prev.Leaf)}
		}
		prev = l
	}
	last := s.Levels[len(s.Levels)-1]
	if s.NodeCnt != last.Total || s.NodeCnt != last.Inner+last.Leaf {
		return s, &h.Viol{Sig: "stat-nodecnt", Msg: fmt.Sprintf("NodeCnt = %d, last level (%d,%d,%d)", s.NodeCnt, last.Total, last.Inner, last.Leaf)}
	}
	if n > 0 && int(last.Leaf) != n {
		return s, &h.Viol{Sig: "stat-last-level-leaf", Msg: fmt.Sprintf("last level leaf count %d != retained keys %d", last.Leaf, n)}
	}
	if n == 0 && (s.KeyCnt != 0 || s.NodeCnt != 0) {
		return s, &h.Viol{Sig: "stat-empty", Msg: fmt.Sprintf("empty trie: KeyCnt=%d NodeCnt=%d", s.KeyCnt, s.NodeCnt)}
	}
	// "(1 key, 1 node) for a single key": a trie built from one key; a trie whose
	// other keys were de-duplicated away legitimately keeps single-label inner nodes.
	if nInput == 1 && (s.KeyCnt != 1 || s.NodeCnt != 1) {
		return s, &h.Viol{Sig: "stat-single", Msg: fmt.Sprintf("single-key trie: KeyCnt=%d NodeCnt=%d", s.KeyCnt, s.NodeCnt)}
	}
	if n >= 2 && s.NodeCnt < int32(n)+1 {
		return s, &h.Viol{Sig: "stat-nodecnt-small", Msg: fmt.Sprintf("NodeCnt=%d for %d retained keys", s.NodeCnt, n)}
	}
	w.Outcome(fmt.Sprintf("levels_%d", s.LevelCnt))
	// per-level counts against an independent source: the depth of every node in
	// the rendering (decided by C19) gives the true number of inner and leaf
	// nodes on each level
	if render {
		var str string
		if p := h.Safely(func() { str = st.String() }); p == nil && str != "" {
			type cnt struct{ total, inner, leaf int32 }
			var per []cnt
			var stack []int
			ok := true
			for _, line := range strings.Split(str, "\n") {
				lead := len(line) - len(strings.TrimLeft(line, " "))
				for len(stack) > 0 && stack[len(stack)-1] >= lead {
					stack = stack[:len(stack)-1]
				}
				depth := len(stack)
				stack = append(stack, lead)
				for len(per) <= depth {
					per = append(per, cnt{})
				}
				m := nodeTok.FindStringIndex(line)
				if m == nil {
					ok = false
					break
				}
				per[depth].total++
				if strings.IndexByte(line[m[1]:], '=') >= 0 {
					per[depth].leaf++
				} else {
					per[depth].inner++
				}
			}
			if ok {
				var cum cnt
				want := []cnt{{}}
				for _, c := range per {
					cum.total += c.total
					cum.inner += c.inner
					cum.leaf += c.leaf
					want = append(want, cum)
				}
				bad := len(want) != len(s.Levels)
				for i := 0; !bad && i < len(want); i++ {
					l := s.Levels[i]
					if l.Total != want[i].total || l.Inner != want[i].inner || l.Leaf != want[i].leaf {
						bad = true
					}
				}
				if bad {
					return s, &h.Viol{Sig: "stat-levels-vs-rendering", Msg: fmt.Sprintf("Stat().Levels = %v, but the rendering has cumulative per-level (total,inner,leaf) = %v", s.Levels, want)}
				}
				w.Trans++
			}
		}
	}
	return s, nil
}

func runC18(r *h.Run) {
	p := defaultProfile()
	p.needQs = false
	r.Rule = "same space as C01 (all 16 option combinations, all instances); oracle: KeyCnt = |retained|, LevelCnt = len(Levels), every level total = inner + leaf, no count decreases, last level = (NodeCnt, inner, KeyCnt), empty => (0,0), single => (1,1), loaded instance's Stat deep-equals the fresh one; on fresh tries of 5..400 keys (smaller ones in the default mode; beyond 30 keys in the modes without stored prefixes, which have the same node structure) the level table equals the cumulative number of inner and leaf nodes per depth counted in the String() rendering (an independent code path, decided by C19); the same clauses on tries loaded from every historical layout (K(U21,3) and scaffolds), into a new instance and into an instance that held another trie"
	r.Assumptions = commonAssumptions
	runTriePass(r, buildPhases(r, p), oracleC18, nil)

	// tries loaded from the historical layouts (their level table is rebuilt by a
	// load path of its own), into a new instance and into one that held another trie
	if !conformLegacy(r) {
		return
	}
	sp := newSpaceCtx(r.Seed)
	layouts := legacyLayouts()
	scs := scaffoldSet(sp, r.Tier == "thorough", []int{2, 3}, func(n string) bool {
		return n == "shift64" || n == "shift30" || n == "shift3" || n == "short2-mixed" || n == "bigroot-in" || n == "big2-in" || n == "lift3"
	})
	type lu struct {
		keys []string
		name string
	}
	r.Phase("legacy-loaded", func(emit func(u interface{}) bool) {
		it := h.NewSubsetIter(len(sp.u2), 0, 3)
		for idx := it.Next(); idx != nil; idx = it.Next() {
			S := h.Pick(sp.u2, idx)
			if !emit(lu{S, "subset"}) {
				return
			}
			if len(idx) > 2 || (len(idx) == 2 && (idx[0]+idx[1])%8 != 0) {
				continue
			}
			for _, sc := range scs {
				s := sc.Apply(S)
				if !emit(lu{s.Keys, "scaffold:" + s.Name}) {
					return
				}
			}
		}
		sweep, cov := legacy.OldIDSweep()
		r.Bounds["old_id_sweep"] = fmt.Sprintf("%d key lists; (node count, highest inner id, highest step id, highest leaf id) of the pre-0.5.10 trie reach %d of 4 x 64 residues modulo 64", len(sweep), cov)
		for i, keys := range sweep {
			if !emit(lu{keys, fmt.Sprintf("old-id-sweep(%03d)", i)}) {
				return
			}
		}
	}, func(w *h.Worker, x interface{}) {
		u := x.(lu)
		w.Begin(func() string { return "C18 legacy " + u.name })
		vals := legacyVals(len(u.keys))
		for li := range layouts {
			l := &layouts[li]
			stream := l.write(u.keys, vals)
			for _, used := range []bool{false, true} {
				var st *trie.SlimTrie
				var err error
				p := h.Safely(func() {
					if used {
						st, err = trie.NewSlimTrie(encode.I32{}, []string{"a", "ab", "b", "bcd", "c"}, []int32{1, 2, 3, 4, 5})
					} else {
						st, err = trie.NewSlimTrie(encode.I32{}, nil, nil)
					}
					if err == nil {
						err = st.Unmarshal(stream)
					}
				})
				if err != nil || p != nil {
					w.DontCare++ // loadability is C06's business
					continue
				}
				w.Evals++
				w.Tick()
				w.State(h.Hash64([]byte(l.Name), stream, []byte(fmt.Sprint(used))), len(u.keys) >= 2)
				_, v := checkStat(w, st, len(u.keys), len(u.keys), len(u.keys) >= 1 && len(u.keys) <= 400)
				if v != nil {
					v.Msg = fmt.Sprintf("%s stream loaded into a %s instance: %s | %s keys=%d", l.Name, map[bool]string{false: "new", true: "used"}[used], v.Msg, u.name, len(u.keys))
					v.Kind, v.Case, v.Unit = "c06", c06Case{Layout: l.Name, KeysHex: hexKeys(u.keys)}, w.Unit()
					w.Report(*v)
					return
				}
			}
		}
		w.Sample(map[string]interface{}{"legacy_loaded": u.name, "keys": len(u.keys), "layouts": len(layouts)})
	})
}

// ---------- C19: String ----------

var nodeTok = regexp.MustCompile(`#(\d+)`)

func oracleC19(w *h.Worker, b *h.Built, inst string, st *trie.SlimTrie, u *inputSpec) *h.Viol {
	var s string
	if p := h.Safely(func() { s = st.String() }); p != nil {
		return &h.Viol{Sig: "string-panic", Msg: fmt.Sprintf("String() panicked: %v", p)}
	}
	w.Trans++
	stat := b.ST.Stat()
	nodeCnt := int(stat.NodeCnt)
	if len(b.Keys) == 0 {
		if s != "" {
			return &h.Viol{Sig: "string-empty", Msg: fmt.Sprintf("String() of empty trie = %q", s)}
		}
		return nil
	}
	seen := make([]int, nodeCnt)
	var leafVals []string
	for _, line := range strings.Split(s, "\n") {
		m := nodeTok.FindStringSubmatchIndex(line)
		if m == nil {
			return &h.Viol{Sig: "string-line-without-node", Msg: fmt.Sprintf("line without #id: %q", line)}
		}
		var id int
		fmt.Sscanf(line[m[2]:m[3]], "%d", &id)
		if id < 0 || id >= nodeCnt {
			return &h.Viol{Sig: "string-node-id-range", Msg: fmt.Sprintf("node id %d outside 0..%d", id, nodeCnt-1)}
		}
		seen[id]++
		rest := line[m[1]:]
		if i := strings.IndexByte(rest, '='); i >= 0 {
			leafVals = append(leafVals, rest[i+1:])
		}
	}
	for id, c := range seen {
		if c != 1 {
			return &h.Viol{Sig: "string-node-multiplicity", Msg: fmt.Sprintf("node #%03d rendered %d times (NodeCnt %d)", id, c, nodeCnt)}
		}
	}
	if len(leafVals) != len(b.Kept) {
		return &h.Viol{Sig: "string-leaf-count", Msg: fmt.Sprintf("%d leaf lines, %d retained keys", len(leafVals), len(b.Kept))}
	}
	for j, i := range b.Kept {
		want := fmt.Sprintf("%v", b.WantVal(i))
		if leafVals[j] != want {
			return &h.Viol{Sig: "string-leaf-values", Msg: fmt.Sprintf("leaf line %d carries %q, want %q (retained key %x)", j, leafVals[j], want, b.Keys[i])}
		}
	}
	if inst != h.InstFresh {
		var fs string
		if p := h.Safely(func() { fs = b.ST.String() }); p == nil && fs != s {
			return &h.Viol{Sig: "string-roundtrip", Msg: "loaded instance renders differently from the fresh one"}
		}
	}
	// the one annotation whose true value the harness knows: in a step-sweep list
	// run<L> whose first key is the L-byte run itself, the root skips exactly 8L bits
	var runLen int
	if n, _ := fmt.Sscanf(u.sc.Name, "run%d", &runLen); n == 1 && len(b.Keys) >= 2 && len(b.Keys[0]) == runLen && len(b.Kept) >= 2 && b.Kept[0] == 0 {
		first := s
		if i := strings.IndexByte(s, '\n'); i >= 0 {
			first = s[:i]
		}
		want := fmt.Sprintf("#000+%d*", 8*runLen)
		if !strings.HasPrefix(first, want) {
			return &h.Viol{Sig: "string-root-step", Msg: fmt.Sprintf("the root line is %q, but the root skips exactly %d bits (want prefix %q)", first, 8*runLen, want)}
		}
	}
	return nil
}

func runC19(r *h.Run) {
	p := defaultProfile()
	p.needQs = false
	p.encsSmall = []string{"String16", "VarEncH"}
	p.shortQuick = []int{2, 3, 4}
	// String() is two orders of magnitude more expensive than a lookup: the
	// variable part under scaffolds is one key smaller than in C01
	p.quickScafK, p.thoroughScafK, p.thoroughIDk = 2, 2, 5
	p.shiftScafK = 1
	// ... and quadratic in the number of keys (about 1 s for 5 000 keys, 45 s for
	// 70 000): key lists beyond 8 000 keys are left to the other trie checks
	p.maxListKeys = 8000
	r.Rule = "same space as C01 (variable part under scaffolds: K(U21,2); thorough: id K(U21,5), K(U85,3), 130 shift offsets over K(U21,1)) with the short-table scaffolds of every table size whose filler has at most 8 000 keys and their mixed variants (short and 17-bit nodes side by side), bigroot, big2; values are distinct-per-id integers / strings so leaf lines parse unambiguously; oracle: no panic; the #id tokens are exactly {0..NodeCnt-1}, each once; the =value suffixes top to bottom equal the retained values in key order; a loaded instance renders the identical string; the same clauses on tries loaded from every historical layout (K(U21,2), scaffolds, sweep offsets)"
	r.Assumptions = append([]string{"the rendering is parsed by its current line format: one line per node, the node id as #<digits>, a leaf value after the first '=' that follows the id"}, commonAssumptions...)
	runTriePass(r, buildPhases(r, p), oracleC19, nil)
	// "every trie" includes the tries loaded from the historical layouts
	legacyLoadedPhase(r, "C19", 2, func(w *h.Worker, l *legacyLayout, b *h.Built, u *inputSpec, st *trie.SlimTrie) *h.Viol {
		return oracleC19(w, b, h.InstFresh, st, u)
	})
}
