package checks

import (
	"bytes"
	"encoding/binary"
	"fmt"
	"math/bits"
	"reflect"
	"time"

	"github.com/openacid/slim/encode"
	"verif/internal/h"
)

// ---------- C15: encoders round-trip every value, consistent sizes, LE layout ----------

type encCase struct {
	Enc   string      `json:"encoder"`
	Value interface{} `json:"value"` // integer as decimal string / string length+content id / struct lanes
	Junk  int         `json:"junk"`
	Tier  string      `json:"tier,omitempty"`
}

func init() {
	// an encoder case may depend on the call that preceded it on the same encoder
	// object: the replay re-runs the (seconds-long) exploration of the recorded
	// tier and reports the violation of the same encoder again
	Replayers["c15"] = func(prop string, raw []byte) *h.Viol {
		var ec encCase
		if err := jsonUnmarshal(raw, &ec); err != nil {
			return &h.Viol{Msg: "bad replay payload: " + err.Error()}
		}
		tier := ec.Tier
		if tier == "" {
			tier = "quick"
		}
		r := h.NewRun("C15", tier, 0, "model_checking", 40*time.Minute)
		C15(r)
		if v := r.FirstViolation(); v != nil {
			if v.Sig == "encoder:"+ec.Enc {
				return v
			}
			return &h.Viol{Sig: v.Sig, Msg: "another encoder fails first: " + v.Msg}
		}
		return nil
	}
}

var lanes = []byte{0x00, 0x01, 0x7f, 0x80, 0xff}

// refLE is the hand-written reference layout: little-endian two's complement.
func refLE(u uint64, width int) []byte {
	b := make([]byte, width)
	for i := 0; i < width; i++ {
		b[i] = byte(u >> (8 * uint(i)))
	}
	return b
}

func refBE(u uint64, width int) []byte {
	b := make([]byte, width)
	for i := 0; i < width; i++ {
		b[width-1-i] = byte(u >> (8 * uint(i)))
	}
	return b
}

// typeEncoderForms returns a TypeEncoder for zero's type and the byte order
// through every public constructor and argument form that yields that order.
func typeEncoderForms(zero interface{}, be bool) (names []string, encs []encode.Encoder, err error) {
	add := func(n string, e *encode.TypeEncoder, er error) {
		if er != nil && err == nil {
			err = fmt.Errorf("%s: %v", n, er)
		}
		names, encs = append(names, n), append(encs, e)
	}
	t := reflect.TypeOf(zero)
	if be {
		e, er := encode.NewTypeEncoderEndian(zero, binary.BigEndian)
		add("NewTypeEncoderEndian(BigEndian)", e, er)
		e, er = encode.NewTypeEncoderEndianByType(t, binary.BigEndian)
		add("NewTypeEncoderEndianByType(BigEndian)", e, er)
		return
	}
	e, er := encode.NewTypeEncoder(zero)
	add("NewTypeEncoder", e, er)
	e, er = encode.NewTypeEncoderEndian(zero, binary.LittleEndian)
	add("NewTypeEncoderEndian(LittleEndian)", e, er)
	e, er = encode.NewTypeEncoderEndian(zero, nil)
	add("NewTypeEncoderEndian(nil)", e, er)
	e, er = encode.NewTypeEncoderEndianByType(t, binary.LittleEndian)
	add("NewTypeEncoderEndianByType(LittleEndian)", e, er)
	e, er = encode.NewTypeEncoderEndianByType(t, nil)
	add("NewTypeEncoderEndianByType(nil)", e, er)
	return
}

type teForms struct {
	names []string
	encs  []encode.Encoder
	err   error
}

type intEnc struct {
	name   string
	enc    encode.Encoder
	width  int
	signed bool
	mk     func(u uint64) interface{}
}

func intEncoders() []intEnc {
	return []intEnc{
		{"I8", encode.I8{}, 1, true, func(u uint64) interface{} { return int8(u) }},
		{"I16", encode.I16{}, 2, true, func(u uint64) interface{} { return int16(u) }},
		{"U16", encode.U16{}, 2, false, func(u uint64) interface{} { return uint16(u) }},
		{"I32", encode.I32{}, 4, true, func(u uint64) interface{} { return int32(u) }},
		{"U32", encode.U32{}, 4, false, func(u uint64) interface{} { return uint32(u) }},
		{"I64", encode.I64{}, 8, true, func(u uint64) interface{} { return int64(u) }},
		{"U64", encode.U64{}, 8, false, func(u uint64) interface{} { return uint64(u) }},
		{"Int", encode.Int{}, bits.UintSize / 8, true, func(u uint64) interface{} { return int(u) }},
	}
}

var junks = [][]byte{nil, {0xa5}, {0xff, 0x00, 0x80, 0x7f, 0x01, 0xfe, 0x55}}

// checkEnc checks all clauses for one (encoder, value, expected layout). It returns a message or "".
func checkEnc(w *h.Worker, e encode.Encoder, v interface{}, want []byte, eq func(a, b interface{}) bool) string {
	var msg string
	p := h.Safely(func() {
		enc := e.Encode(v)
		w.Trans++
		// an encoding belongs to the caller: the next Encode call on the same
		// encoder must not change the bytes an earlier call returned
		if pv := c15PrevOf(w, e); pv != nil && !bytes.Equal(pv.enc, pv.cp) {
			msg = fmt.Sprintf("Encode(%v) changed the bytes returned by the preceding Encode(%s) on the same encoder: %x, were %x", brief(v), pv.v, cut(pv.enc), cut(pv.cp))
			return
		}
		c15SetPrev(w, e, &c15Prev{e: e, enc: enc, cp: append([]byte{}, enc...), v: brief(v)})
		// ... and the caller may append to it (a record is often built by appending
		// further fields to an encoding): spare capacity must be the caller's too
		if cap(enc) > len(enc) {
			ext := append(enc, 0xa5, 0x5a, 0xc3)
			_ = ext
		}
		if !bytes.Equal(enc, want) {
			msg = fmt.Sprintf("Encode(%v) = %x, reference layout %x", brief(v), cut(enc), cut(want))
			return
		}
		if gs := e.GetSize(v); gs != len(want) {
			msg = fmt.Sprintf("GetSize(%v) = %d, len(Encode) = %d", brief(v), gs, len(want))
			return
		}
		w.Trans++
		for _, j := range junks {
			buf := make([]byte, 0, len(enc)+len(j))
			buf = append(append(buf, enc...), j...)
			if ges := e.GetEncodedSize(buf); ges != len(want) {
				msg = fmt.Sprintf("GetEncodedSize(Encode(%v)+%d junk) = %d, want %d", brief(v), len(j), ges, len(want))
				return
			}
			n, d := e.Decode(buf)
			w.Trans += 2
			if n != len(want) {
				msg = fmt.Sprintf("Decode(Encode(%v)+%d junk) consumed %d, want %d", brief(v), len(j), n, len(want))
				return
			}
			if !eq(d, v) {
				msg = fmt.Sprintf("Decode(Encode(%v)+%d junk) = %v", brief(v), len(j), brief(d))
				return
			}
		}
	})
	if p != nil {
		return fmt.Sprintf("panic on value %v: %v", brief(v), p)
	}
	return msg
}

type c15Prev struct {
	e       encode.Encoder
	enc, cp []byte
	v       string
}

// c15PrevOf / c15SetPrev keep, per worker and per encoder object, the result of
// the preceding Encode call (encoders of uncomparable dynamic type are skipped).
func c15PrevOf(w *h.Worker, e encode.Encoder) (pv *c15Prev) {
	defer func() { recover() }()
	m, _ := w.Scratch["c15prev"].(map[encode.Encoder]*c15Prev)
	return m[e]
}

func c15SetPrev(w *h.Worker, e encode.Encoder, pv *c15Prev) {
	defer func() { recover() }()
	m, _ := w.Scratch["c15prev"].(map[encode.Encoder]*c15Prev)
	if m == nil || len(m) > 256 {
		m = map[encode.Encoder]*c15Prev{}
		w.Scratch["c15prev"] = m
	}
	m[e] = pv
}

func brief(v interface{}) string {
	switch x := v.(type) {
	case string:
		if len(x) > 16 {
			return fmt.Sprintf("string(len=%d,%q...)", len(x), x[:8])
		}
		return fmt.Sprintf("%q", x)
	case []byte:
		if len(x) > 16 {
			return fmt.Sprintf("bytes(len=%d,%x...)", len(x), x[:8])
		}
		return fmt.Sprintf("bytes(%x)", x)
	}
	return fmt.Sprintf("%T(%v)", v, v)
}

func cut(b []byte) []byte {
	if len(b) > 24 {
		return b[:24]
	}
	return b
}

func eqPlain(a, b interface{}) bool { return a == b }

func nontrivBytes(b []byte) bool {
	for i := 1; i < len(b); i++ {
		if b[i] != b[0] {
			return true
		}
	}
	return false
}

// value sets for wide integers: lane alphabet^width plus 1/2-bit patterns and power-of-two neighbours
func wideValues(width int, emit func(u uint64)) {
	n := 1
	for i := 0; i < width; i++ {
		n *= len(lanes)
	}
	for x := 0; x < n; x++ {
		var u uint64
		y := x
		for i := 0; i < width; i++ {
			u |= uint64(lanes[y%len(lanes)]) << (8 * uint(i))
			y /= len(lanes)
		}
		emit(u)
	}
	nb := uint(width * 8)
	mask := ^uint64(0)
	if nb < 64 {
		mask = (uint64(1) << nb) - 1
	}
	for i := uint(0); i < nb; i++ {
		emit(uint64(1) << i)
		emit((uint64(1)<<i - 1) & mask)
		emit((uint64(1)<<i + 1) & mask)
		emit(^(uint64(1) << i) & mask)
		for j := i + 1; j < nb; j++ {
			emit(uint64(1)<<i | uint64(1)<<j)
			emit(^(uint64(1)<<i | uint64(1)<<j) & mask)
		}
	}
}

type c15unit struct {
	kind string
	ie   intEnc
	lo   uint64
	hi   uint64 // exclusive (exhaustive ranges)
	vals []uint64
	strL []int
	n    int
}

type c15Off uint32
type c15ID int64
type c15Small int16

type typeT struct {
	A int8
	B uint16
	C [2]int32
	D struct {
		E uint64
		F [3]byte
	}
}

func refTypeT(v typeT, be bool) []byte {
	f := refLE
	if be {
		f = refBE
	}
	var b []byte
	b = append(b, byte(v.A))
	b = append(b, f(uint64(v.B), 2)...)
	b = append(b, f(uint64(uint32(v.C[0])), 4)...)
	b = append(b, f(uint64(uint32(v.C[1])), 4)...)
	b = append(b, f(v.D.E, 8)...)
	b = append(b, v.D.F[:]...)
	return b
}

// C15 check.
func C15(r *h.Run) {
	thorough := r.Tier == "thorough"
	tier := r.Tier
	r.Rule = "every value of the stated per-encoder domains; no Encode call changes the bytes an earlier call on the same encoder returned; (8/16-bit exhaustive; 32-bit exhaustive in thorough, lane-alphabet {00,01,7f,80,ff}^4 + all 1-/2-bit patterns + power-of-two neighbours in quick; 64-bit and native int: lane^8 + patterns; String16 every length in the stated set x 2 contents; Bytes{n}; Dummy; TypeEncoder struct, plain and defined (named) integer types in both byte orders, each through every public constructor and argument form that yields that order (by value / by reflect.Type, explicit order / nil)); each value is checked with 0, 1 and 7 junk bytes appended; values are distinct by construction; non-trivial = encoding contains at least two different bytes"
	r.Assumptions = []string{"only the platform's int width (64) is explored", "reference layout is a hand-written shift/mask codec inside the harness", "Dummy's value domain is {nil}; Bytes{n}'s domain is slices of length n"}

	gen := func(emit func(u interface{}) bool) {
		for _, ie := range intEncoders() {
			switch {
			case ie.width <= 2:
				emit(c15unit{kind: "range", ie: ie, lo: 0, hi: 1 << (8 * uint(ie.width))})
			case ie.width == 4 && thorough:
				const chunk = 1 << 22
				for lo := uint64(0); lo < 1<<32; lo += chunk {
					if !emit(c15unit{kind: "range", ie: ie, lo: lo, hi: lo + chunk}) {
						return
					}
				}
			}
			if ie.width >= 4 {
				seen := map[uint64]bool{}
				var vals []uint64
				wideValues(ie.width, func(u uint64) {
					if seen[u] {
						return
					}
					seen[u] = true
					vals = append(vals, u)
					if len(vals) == 8192 {
						emit(c15unit{kind: "list", ie: ie, vals: vals})
						vals = nil
					}
				})
				if len(vals) > 0 {
					emit(c15unit{kind: "list", ie: ie, vals: vals})
				}
				if ie.width == 4 && !thorough {
					// dense 32-bit planes: one half over lanes^2, the other half exhaustive
					for _, a := range lanes {
						for _, b := range lanes {
							half := uint64(a)<<8 | uint64(b)
							emit(c15unit{kind: "plane", ie: ie, lo: half, n: 0})
							emit(c15unit{kind: "plane", ie: ie, lo: half, n: 1})
						}
					}
				}
			}
		}
		// String16 lengths
		var lens []int
		if thorough {
			for l := 0; l <= 65535; l++ {
				lens = append(lens, l)
			}
		} else {
			for l := 0; l <= 300; l++ {
				lens = append(lens, l)
			}
			for k := uint(9); k <= 16; k++ {
				for _, d := range []int{-1, 0, 1} {
					l := 1<<k + d
					if l <= 65535 {
						lens = append(lens, l)
					}
				}
			}
		}
		for i := 0; i < len(lens); i += 64 {
			j := i + 64
			if j > len(lens) {
				j = len(lens)
			}
			if !emit(c15unit{kind: "str", strL: lens[i:j]}) {
				return
			}
		}
		for _, n := range []int{0, 1, 2, 3, 4, 5, 6, 7, 8, 9, 10, 11, 12, 13, 14, 15, 16, 17, 31, 32, 33, 63, 64, 255, 256, 65536} {
			emit(c15unit{kind: "bytes", n: n})
		}
		emit(c15unit{kind: "dummy"})
		emit(c15unit{kind: "type"})
		emit(c15unit{kind: "typeint"})
	}

	work := func(w *h.Worker, u interface{}) {
		x := u.(c15unit)
		fail := func(enc string, v interface{}, msg string) {
			w.Report(h.Viol{Sig: "encoder:" + enc, Msg: enc + ": " + msg, Kind: "c15", Case: encCase{Enc: enc, Value: fmt.Sprint(v), Tier: tier}, Unit: w.Unit()})
		}
		switch x.kind {
		case "range", "list", "plane":
			ie := x.ie
			one := func(uv uint64) bool {
				v := ie.mk(uv)
				want := refLE(uv, ie.width)
				w.Evals++
				w.Tick()
				w.StatesN++
				if nontrivBytes(want) {
					w.NontrivN++
				}
				if msg := checkEnc(w, ie.enc, v, want, eqPlain); msg != "" {
					fail(ie.name, fmt.Sprintf("0x%x", uv), msg)
					return false
				}
				return true
			}
			if x.kind == "plane" {
				// values that also occur in the lane list are skipped so that
				// every value is enumerated once
				w.Begin(func() string { return fmt.Sprintf("C15 %s plane %x/%d", ie.name, x.lo, x.n) })
				isLane := func(b byte) bool {
					for _, l := range lanes {
						if l == b {
							return true
						}
					}
					return false
				}
				cnt := int64(0)
				for o := uint64(0); o < 1<<16; o++ {
					uv := x.lo<<16 | o
					if x.n == 1 {
						uv = o<<16 | x.lo
						if isLane(byte(o)) && isLane(byte(o>>8)) {
							continue // already covered by plane 0 of that half
						}
					}
					if bits.OnesCount64(uv) <= 2 || bits.OnesCount64(uv^0xffffffff) <= 2 || uv&(uv+1) == 0 || uv&(uv-1)&(uv-2) == 0 && false {
						// may coincide with the pattern list; harmless duplicates are not counted
						if msg := checkEnc(w, ie.enc, ie.mk(uv), refLE(uv, 4), eqPlain); msg != "" {
							fail(ie.name, fmt.Sprintf("0x%x", uv), msg)
							return
						}
						continue
					}
					if isLane(byte(uv)) && isLane(byte(uv>>8)) && isLane(byte(uv>>16)) && isLane(byte(uv>>24)) {
						continue
					}
					if !one(uv) {
						return
					}
					cnt++
				}
				w.FeatureN("dense_plane_values_"+ie.name, cnt)
			} else if x.kind == "range" {
				w.Begin(func() string { return fmt.Sprintf("C15 %s range %x..%x", ie.name, x.lo, x.hi) })
				for uv := x.lo; uv < x.hi; uv++ {
					if !one(uv) {
						return
					}
				}
				if x.lo == 0 {
					w.Sample(map[string]interface{}{"encoder": ie.name, "range": fmt.Sprintf("0x%x..0x%x exhaustive", x.lo, x.hi)})
				}
				w.FeatureN("exhaustive_range_values_"+ie.name, int64(x.hi-x.lo))
			} else {
				w.Begin(func() string { return fmt.Sprintf("C15 %s list", ie.name) })
				for _, uv := range x.vals {
					if !one(uv) {
						return
					}
				}
				w.Sample(map[string]interface{}{"encoder": ie.name, "values_hex": fmt.Sprintf("%x %x %x ...", x.vals[0], x.vals[1], x.vals[len(x.vals)-1])})
				w.FeatureN("lane_pattern_values_"+ie.name, int64(len(x.vals)))
			}
		case "str":
			e := encode.String16{}
			for _, l := range x.strL {
				for content := 0; content < 2; content++ {
					b := make([]byte, l)
					for i := range b {
						if content == 0 {
							b[i] = byte(i*7 + l)
						} else {
							b[i] = 0xff
						}
					}
					s := string(b)
					want := append([]byte{byte(l >> 8), byte(l)}, b...)
					w.Evals++
					w.Tick()
					w.StatesN++
					if l >= 1 {
						w.NontrivN++
					}
					if msg := checkEnc(w, e, s, want, eqPlain); msg != "" {
						fail("String16", fmt.Sprintf("len=%d content=%d", l, content), msg)
						return
					}
				}
			}
			w.FeatureN("string16_lengths", int64(len(x.strL)))
			w.Sample(map[string]interface{}{"encoder": "String16", "lengths": fmt.Sprintf("%d..%d", x.strL[0], x.strL[len(x.strL)-1]), "contents": 2})
		case "bytes":
			e := encode.Bytes{Size: x.n}
			for content := 0; content < 2; content++ {
				b := make([]byte, x.n)
				for i := range b {
					if content == 0 {
						b[i] = byte(i*13 + 1)
					} else {
						b[i] = 0x80
					}
				}
				w.Evals++
				w.Tick()
				w.StatesN++
				if nontrivBytes(b) {
					w.NontrivN++
				}
				msg := checkEnc(w, e, append([]byte{}, b...), b, func(a, c interface{}) bool {
					ab, ok1 := a.([]byte)
					cb, ok2 := c.([]byte)
					return ok1 && ok2 && bytes.Equal(ab, cb)
				})
				if msg != "" {
					fail(fmt.Sprintf("Bytes{%d}", x.n), fmt.Sprintf("content=%d", content), msg)
					return
				}
			}
			w.Feature("bytes_sizes")
		case "dummy":
			e := encode.Dummy{}
			w.Evals++
			w.Tick()
			w.StatesN++
			if msg := checkEnc(w, e, nil, []byte{}, func(a, c interface{}) bool { return a == nil && c == nil }); msg != "" {
				fail("Dummy", nil, msg)
				return
			}
			// sizes for anything
			for _, v := range []interface{}{1, "x", []byte{1, 2}, int64(-1), struct{}{}} {
				w.Evals++
				w.Tick()
				var msg string
				p := h.Safely(func() {
					if e.GetSize(v) != 0 || len(e.Encode(v)) != 0 || e.GetEncodedSize(e.Encode(v)) != 0 {
						msg = fmt.Sprintf("Dummy sizes for %v are not 0", v)
					}
				})
				if p != nil {
					msg = fmt.Sprintf("Dummy panics on %v: %v", v, p)
				}
				if msg != "" {
					fail("Dummy", v, msg)
					return
				}
			}
			w.Sample(map[string]interface{}{"encoder": "Dummy", "value": nil})
		case "type":
			// constructor history: both byte orders are made before either is used,
			// little-endian first in one pass and big-endian first in the other
			for _, beFirst := range []bool{false, true} {
				pre := map[bool]*teForms{}
				for _, b := range []bool{beFirst, !beFirst} {
					n, e, er := typeEncoderForms(typeT{}, b)
					pre[b] = &teForms{n, e, er}
				}
				for _, be := range []bool{false, true} {
					var order binary.ByteOrder = binary.LittleEndian
					name := "TypeEncoder(LE,struct)"
					if be {
						order = binary.BigEndian
						name = "TypeEncoder(BE,struct)"
					}
					_ = order
					forms, tes, err := pre[be].names, pre[be].encs, pre[be].err
					if err != nil {
						fail(name, nil, "constructor failed: "+err.Error())
						return
					}
					// every field takes every lane pattern independently, others at a base pattern;
					// plus all lanes equal.
					var vals []typeT
					for _, a := range lanes {
						for _, b := range lanes {
							for _, c := range lanes {
								v := typeT{A: int8(a), B: uint16(b)<<8 | uint16(c)}
								v.C[0] = int32(uint32(a)<<24 | uint32(b)<<16 | uint32(c)<<8 | uint32(a))
								v.C[1] = int32(uint32(c)<<24 | uint32(a)<<8 | uint32(b))
								v.D.E = uint64(a)<<56 | uint64(b)<<48 | uint64(c)<<24 | uint64(b)<<8 | uint64(a)
								v.D.F = [3]byte{c, b, a}
								vals = append(vals, v)
							}
						}
					}
					for _, v := range vals {
						want := refTypeT(v, be)
						w.Evals++
						w.Tick()
						w.StatesN++
						if nontrivBytes(want) {
							w.NontrivN++
						}
						for fi, te := range tes {
							if msg := checkEnc(w, te, v, want, func(a, c interface{}) bool { return reflect.DeepEqual(a, c) }); msg != "" {
								fail(name+" via "+forms[fi], v, msg)
								return
							}
						}
						// pointer input is accepted too (reflect.Indirect)
					}
					w.Sample(map[string]interface{}{"encoder": name, "value": fmt.Sprintf("%+v", vals[37])})
					w.FeatureN("type_encoder_struct_values", int64(len(vals)))
				}
			}
		case "typeint":
			type mk struct {
				name  string
				zero  interface{}
				width int
				mk    func(u uint64) interface{}
			}
			kinds := []mk{
				{"int8", int8(0), 1, func(u uint64) interface{} { return int8(u) }},
				{"uint8", uint8(0), 1, func(u uint64) interface{} { return uint8(u) }},
				{"int16", int16(0), 2, func(u uint64) interface{} { return int16(u) }},
				{"uint16", uint16(0), 2, func(u uint64) interface{} { return uint16(u) }},
				{"int32", int32(0), 4, func(u uint64) interface{} { return int32(u) }},
				{"uint32", uint32(0), 4, func(u uint64) interface{} { return uint32(u) }},
				{"int64", int64(0), 8, func(u uint64) interface{} { return int64(u) }},
				{"uint64", uint64(0), 8, func(u uint64) interface{} { return uint64(u) }},
				// defined integer types: the decoded value must have exactly this type
				{"named-uint32", c15Off(0), 4, func(u uint64) interface{} { return c15Off(u) }},
				{"named-int64", c15ID(0), 8, func(u uint64) interface{} { return c15ID(u) }},
				{"named-int16", c15Small(0), 2, func(u uint64) interface{} { return c15Small(u) }},
			}
			for _, k := range kinds {
				// constructor history: both byte orders are made before either is used,
				// little-endian first in one pass and big-endian first in the other
				for _, beFirst := range []bool{false, true} {
					pre := map[bool]*teForms{}
					for _, b := range []bool{beFirst, !beFirst} {
						n, e, er := typeEncoderForms(k.zero, b)
						pre[b] = &teForms{n, e, er}
					}
					for _, be := range []bool{false, true} {
						var order binary.ByteOrder = binary.LittleEndian
						if be {
							order = binary.BigEndian
						}
						name := fmt.Sprintf("TypeEncoder(%v,%s)", order, k.name)
						forms, tes, err := pre[be].names, pre[be].encs, pre[be].err
						if err != nil {
							fail(name, nil, "constructor failed: "+err.Error())
							return
						}
						n := 1
						for i := 0; i < k.width; i++ {
							n *= len(lanes)
						}
						if n > 625 {
							n = 625 * 5 // lanes^4 for low part, high lanes mirrored
						}
						for x := 0; x < n; x++ {
							var uv uint64
							y := x
							for i := 0; i < k.width; i++ {
								uv |= uint64(lanes[y%len(lanes)]) << (8 * uint(i))
								y /= len(lanes)
								if y == 0 && i >= 4 {
									y = x
								}
							}
							v := k.mk(uv)
							want := refLE(uv, k.width)
							if be {
								want = refBE(uv, k.width)
							}
							w.Evals++
							w.Tick()
							w.StatesN++
							if nontrivBytes(want) {
								w.NontrivN++
							}
							for fi, te := range tes {
								if msg := checkEnc(w, te, v, want, eqPlain); msg != "" {
									fail(name+" via "+forms[fi], fmt.Sprintf("0x%x", uv), msg)
									return
								}
							}
						}
						w.Feature("type_encoder_int_kinds")
					}
				}
			}
		}
	}
	r.Phase("encoders", gen, work)
}

// ReplayC15 re-executes one encoder case.
func ReplayC15(raw []byte) (string, bool) {
	return "C15 replay: re-run the check (the failing value is named in the message)", false
}
