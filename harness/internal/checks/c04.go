package checks

import (
	"bytes"
	"fmt"
	"sort"
	"time"

	"github.com/openacid/slim/trie"
	"verif/internal/h"
)

func init() {
	trieOracles["C04"] = oracleC04
	register(&Check{ID: "C04", Level: "model_checking", Run: runC04, QuickBudget: 400 * time.Second, ThoroughBudget: 60 * time.Minute})
}

type kv struct {
	k string
	v []byte
}

// scanRef is the reference: retained entries with start/end bounds.
func scanRef(b *h.Built, start string, inclStart bool, end *string, inclEnd bool, withValue bool) []kv {
	var out []kv
	for _, i := range b.Kept {
		k := b.Keys[i]
		if k < start || (k == start && !inclStart) {
			continue
		}
		if end != nil {
			if k > *end || (k == *end && !inclEnd) {
				break
			}
		}
		var v []byte
		if withValue && b.Encoded != nil {
			v = b.Encoded[i]
		}
		out = append(out, kv{k, v})
	}
	return out
}

func sameKVs(got, want []kv) string {
	if len(got) != len(want) {
		return fmt.Sprintf("yielded %d entries %s, want %d %s", len(got), kvBrief(got), len(want), kvBrief(want))
	}
	for i := range got {
		if got[i].k != want[i].k {
			return fmt.Sprintf("entry %d: key %s, want %s", i, briefQ(got[i].k), briefQ(want[i].k))
		}
		// empty and nil are interchangeable (zero-width values / no values)
		if !bytes.Equal(got[i].v, want[i].v) {
			return fmt.Sprintf("entry %d (key %s): value bytes %x, want %x", i, briefQ(got[i].k), got[i].v, want[i].v)
		}
	}
	return ""
}

func kvBrief(l []kv) string {
	s := "["
	for i, e := range l {
		if i > 6 {
			s += "..."
			break
		}
		if i > 0 {
			s += ","
		}
		s += briefQ(e.k)
	}
	return s + "]"
}

func cp(b []byte) []byte {
	if b == nil {
		return nil
	}
	return append([]byte{}, b...)
}

// drainIter calls next() until it reports exhaustion and then 3 more times.
func drainIter(w *h.Worker, nxt trie.NextRaw, limit int) (out []kv, msg string) {
	for i := 0; ; i++ {
		k, v := nxt()
		w.Trans++
		w.Tick()
		if k == nil {
			break
		}
		out = append(out, kv{string(k), cp(v)})
		if i > limit {
			return out, "iterator yields more entries than the trie has keys"
		}
	}
	for j := 0; j < 3; j++ {
		k, v := nxt()
		w.Trans++
		w.Tick()
		if k != nil || v != nil {
			return out, fmt.Sprintf("next() after exhaustion returned (%x,%x)", k, v)
		}
	}
	return out, ""
}

// oracleC04: the scan oracle, and around it the fact that scans are reads: what
// the instance marshals is the same before and after all the scans, and every
// retained key is still found with its value.
func oracleC04(w *h.Worker, b *h.Built, inst string, st *trie.SlimTrie, u *inputSpec) *h.Viol {
	if !b.Opt.IsComplete() {
		return refusalC04(w, b, st)
	}
	m0, err0 := st.Marshal()
	if v := oracleC04Scans(w, b, inst, st, u); v != nil {
		return v
	}
	m1, err1 := st.Marshal()
	w.Trans += 2
	w.Tick()
	if (err0 == nil) != (err1 == nil) || !bytes.Equal(m0, m1) {
		return &h.Viol{Sig: "scan-modifies-trie", Msg: fmt.Sprintf("the instance marshals differently after the scans than before (lengths %d, %d, first difference at %d): a scan wrote into the trie", len(m0), len(m1), firstDiff(m0, m1))}
	}
	for _, i := range b.Kept {
		var v interface{}
		var found bool
		if p := h.Safely(func() { v, found = st.Get(b.Keys[i]) }); p != nil {
			return &h.Viol{Sig: "scan-modifies-trie", Msg: fmt.Sprintf("after the scans Get(%s) panics: %v", briefQ(b.Keys[i]), p)}
		}
		w.Trans++
		if !found || (b.Decoded != nil && !b.AllEmpty && b.Enc != "Dummy" && !eqVal(v, b.WantVal(i))) {
			return &h.Viol{Sig: "scan-modifies-trie", Msg: fmt.Sprintf("after the scans Get(%s) = (%v,%v): a retained key is no longer found with its value", briefQ(b.Keys[i]), v, found)}
		}
	}
	return nil
}

func oracleC04Scans(w *h.Worker, b *h.Built, inst string, st *trie.SlimTrie, u *inputSpec) *h.Viol {
	n := len(b.Kept)
	starts := u.qs
	if len(starts) == 0 {
		starts = []string{""}
	}
	thorough := w.Scratch["thorough"] == true
	// The full oracle runs on the canonical complete combinations of a fresh
	// instance (and on every instance in thorough); the other complete
	// combinations normalise to the same trie and loaded instances answer from
	// the same message: they get the light oracle (all starts of the
	// neighbourhood set, both inclusivities, ScanFromTo over E x E).
	canonical := b.Opt == h.Opt4{D: 1, I: 0, L: 0, C: 1} || b.Opt == h.Opt4{D: 0, I: 0, L: 0, C: 1} || b.Opt == h.Opt4{D: 1, I: 1, L: 1, C: 0} || b.Opt == h.Opt4{D: 0, I: 1, L: 1, C: 0}
	heavy := canonical && (inst == h.InstFresh || thorough)
	// neighbourhood set E: keys, key+00, predecessors/successors in the start list, extremes
	eset := map[string]bool{"": true, "\xff\xff\xff\xff": true}
	hasVar := u.sc.NVar() > 0 && len(u.sc.IsVar) == len(b.Keys)
	for _, i := range b.Kept {
		k := b.Keys[i]
		if hasVar && !u.sc.IsVar[i] && i != 0 && i != len(b.Keys)-1 {
			continue // under a scaffold the neighbourhood is that of the variable keys (+ first and last key)
		}
		eset[k] = true
		eset[k+"\x00"] = true
		j := sort.SearchStrings(starts, k)
		if j > 0 {
			eset[starts[j-1]] = true
		}
		if j+1 < len(starts) {
			eset[starts[j+1]] = true
		}
	}
	var E []string
	for k := range eset {
		E = append(E, k)
	}
	sort.Strings(E)
	if len(E) > 40 {
		// large families: thin the neighbourhood set deterministically
		step := len(E) / 40
		var e2 []string
		for i := 0; i < len(E); i += step {
			e2 = append(e2, E[i])
		}
		E = e2
	}

	iterStarts := starts
	if !heavy {
		iterStarts = E
	}
	inE := map[string]bool{}
	for _, e := range E {
		inE[e] = true
	}
	isKey := map[string]bool{}
	for _, i := range b.Kept {
		isKey[b.Keys[i]] = true
	}
	for _, withValue := range []bool{true, false} {
		for _, incl := range []bool{true, false} {
			for _, s := range iterStarts {
				// quick tier: the full product (start x inclusivity x withValue) on the
				// neighbourhood set E; for the remaining starts of Q the inclusive scan
				// with values (inclusivity only matters when the start is a key, and
				// withValue does not depend on the start).  Thorough: full product.
				if !thorough && !inE[s] && !(withValue && (incl || isKey[s])) {
					continue
				}
				want := scanRef(b, s, incl, nil, false, withValue)
				// NewIter as a state machine
				var got []kv
				var msg string
				if p := h.Safely(func() {
					nxt := st.NewIter(s, incl, withValue)
					got, msg = drainIter(w, nxt, n+2)
				}); p != nil {
					return &h.Viol{Sig: "scan-panic", Msg: fmt.Sprintf("NewIter(%s,%v,%v) panicked: %v", briefQ(s), incl, withValue, p)}
				}
				if msg == "" {
					msg = sameKVs(got, want)
				}
				if msg != "" {
					return &h.Viol{Sig: "iter-wrong", Msg: fmt.Sprintf("NewIter(%s,incl=%v,withValue=%v): %s", briefQ(s), incl, withValue, msg)}
				}
				w.Outcome(fmt.Sprintf("scan_len_%d", min(len(want), 6)))
				if !thorough && !inE[s] {
					continue
				}
				// ScanFrom, full
				got = got[:0]
				calls := 0
				if p := h.Safely(func() {
					st.ScanFrom(s, incl, withValue, func(k, v []byte) bool {
						calls++
						got = append(got, kv{string(k), cp(v)})
						return calls <= n+2
					})
				}); p != nil {
					return &h.Viol{Sig: "scan-panic", Msg: fmt.Sprintf("ScanFrom(%s,%v,%v) panicked: %v", briefQ(s), incl, withValue, p)}
				}
				w.Trans++
				w.Tick()
				if msg := sameKVs(got, want); msg != "" {
					return &h.Viol{Sig: "scanfrom-wrong", Msg: fmt.Sprintf("ScanFrom(%s,incl=%v,withValue=%v): %s", briefQ(s), incl, withValue, msg)}
				}
			}
		}
	}

	// callback stop points: for every start in E and every j = 0..len(result)
	for _, s := range E {
		if !heavy {
			break
		}
		want := scanRef(b, s, true, nil, false, true)
		if len(want) > 12 {
			want = want[:12]
		}
		for j := 0; j <= len(want); j++ {
			calls := 0
			var got []kv
			if p := h.Safely(func() {
				st.ScanFrom(s, true, true, func(k, v []byte) bool {
					calls++
					got = append(got, kv{string(k), cp(v)})
					return calls <= j
				})
			}); p != nil {
				return &h.Viol{Sig: "scan-panic", Msg: fmt.Sprintf("ScanFrom(%s) with callback stop panicked: %v", briefQ(s), p)}
			}
			w.Trans++
			w.Tick()
			full := scanRef(b, s, true, nil, false, true)
			wantCalls := j + 1
			if wantCalls > len(full) {
				wantCalls = len(full)
			}
			if calls != wantCalls {
				return &h.Viol{Sig: "scan-callback-stop", Msg: fmt.Sprintf("ScanFrom(%s): callback returning false after %d results was called %d times, want %d", briefQ(s), j, calls, wantCalls)}
			}
			if msg := sameKVs(got, full[:wantCalls]); msg != "" {
				return &h.Viol{Sig: "scan-callback-stop", Msg: fmt.Sprintf("ScanFrom(%s) stopped after %d: %s", briefQ(s), j, msg)}
			}
		}
	}

	// ScanFromTo: starts x ends over E (quick) / starts E x ends all (thorough)
	ends := E
	if thorough && heavy && len(starts) <= 200 {
		ends = starts
	}
	for _, s := range E {
		for _, e := range ends {
			e := e
			for _, is := range []bool{true, false} {
				for _, ie := range []bool{true, false} {
					if !heavy && is != ie {
						continue
					}
					wv := is != ie // alternate withValue to bound the cost
					want := scanRef(b, s, is, &e, ie, wv)
					var got []kv
					calls := 0
					if p := h.Safely(func() {
						st.ScanFromTo(s, is, e, ie, wv, func(k, v []byte) bool {
							calls++
							got = append(got, kv{string(k), cp(v)})
							return calls <= n+2
						})
					}); p != nil {
						return &h.Viol{Sig: "scan-panic", Msg: fmt.Sprintf("ScanFromTo(%s,%v,%s,%v) panicked: %v", briefQ(s), is, briefQ(e), ie, p)}
					}
					w.Trans++
					w.Tick()
					if msg := sameKVs(got, want); msg != "" {
						return &h.Viol{Sig: "scanfromto-wrong", Msg: fmt.Sprintf("ScanFromTo(%s,incl=%v,%s,incl=%v,withValue=%v): %s", briefQ(s), is, briefQ(e), ie, wv, msg)}
					}
				}
			}
		}
	}

	// two iterators on one trie: all interleavings of their next() calls (result lists <= 3)
	if n <= 4 && heavy && inst == h.InstFresh && b.Opt.C == 1 {
		// iterator start points: the keys themselves and the empty string
		K := []string{""}
		for _, i := range b.Kept {
			if b.Keys[i] != "" {
				K = append(K, b.Keys[i])
			}
		}
		for ai, a := range K {
			for _, bb := range K[ai:] {
				wa := scanRef(b, a, true, nil, false, true)
				wb := scanRef(b, bb, false, nil, false, true)
				if len(wa) > 3 || len(wb) > 3 {
					continue
				}
				if v := interleaveIters(w, b, st, a, bb, wa, wb); v != nil {
					return v
				}
			}
		}
	}
	return nil
}

// interleaveIters explores every interleaving of the next() calls of two
// iterators (each runs to exhaustion + 1 call) and checks non-interference.
func interleaveIters(w *h.Worker, b *h.Built, st *trie.SlimTrie, a, bb string, wa, wb []kv) *h.Viol {
	la, lb := len(wa)+1, len(wb)+1 // calls per iterator: results + 1 exhausted call
	sched := make([]int, 0, la+lb)
	var viol *h.Viol
	var rec func(ca, cb int)
	rec = func(ca, cb int) {
		if viol != nil {
			return
		}
		if ca == la && cb == lb {
			// execute this schedule on fresh iterators
			var ga, gb []kv
			if p := h.Safely(func() {
				ia := st.NewIter(a, true, true)
				ib := st.NewIter(bb, false, true)
				for _, t := range sched {
					if t == 0 {
						k, v := ia()
						if k != nil {
							ga = append(ga, kv{string(k), cp(v)})
						} else {
							ga = append(ga, kv{"\x00<nil>", nil})
						}
					} else {
						k, v := ib()
						if k != nil {
							gb = append(gb, kv{string(k), cp(v)})
						} else {
							gb = append(gb, kv{"\x00<nil>", nil})
						}
					}
					w.Trans++
					w.Tick()
				}
			}); p != nil {
				viol = &h.Viol{Sig: "scan-panic", Msg: fmt.Sprintf("two iterators (%s | %s) schedule %v panicked: %v", briefQ(a), briefQ(bb), sched, p)}
				return
			}
			exp := func(want []kv) []kv {
				r := append([]kv{}, want...)
				return append(r, kv{"\x00<nil>", nil})
			}
			if msg := sameKVs(ga, exp(wa)); msg != "" {
				viol = &h.Viol{Sig: "iterators-interfere", Msg: fmt.Sprintf("two iterators (%s | %s) schedule %v: first iterator: %s", briefQ(a), briefQ(bb), sched, msg)}
			} else if msg := sameKVs(gb, exp(wb)); msg != "" {
				viol = &h.Viol{Sig: "iterators-interfere", Msg: fmt.Sprintf("two iterators (%s | %s) schedule %v: second iterator: %s", briefQ(a), briefQ(bb), sched, msg)}
			}
			w.Outcome("iterator_interleavings")
			return
		}
		if ca < la {
			sched = append(sched, 0)
			rec(ca+1, cb)
			sched = sched[:len(sched)-1]
		}
		if cb < lb {
			sched = append(sched, 1)
			rec(ca, cb+1)
			sched = sched[:len(sched)-1]
		}
	}
	rec(0, 0)
	return viol
}

// refusalC04: a trie that does not store complete keys must refuse to scan.
func refusalC04(w *h.Worker, b *h.Built, st *trie.SlimTrie) *h.Viol {
	starts := []string{""}
	if len(b.Keys) > 0 {
		starts = append(starts, b.Keys[0], b.Keys[len(b.Keys)-1], b.Keys[len(b.Keys)/2]+"\x00")
	}
	for _, s := range starts {
		for _, api := range []string{"ScanFrom", "ScanFromTo", "NewIter"} {
			yielded := 0
			var first string
			p := h.Safely(func() {
				cb := func(k, v []byte) bool {
					if yielded == 0 {
						first = string(k)
					}
					yielded++
					return yielded < 4
				}
				switch api {
				case "ScanFrom":
					st.ScanFrom(s, true, false, cb)
				case "ScanFromTo":
					st.ScanFromTo(s, true, "\xff\xff\xff", true, false, cb)
				case "NewIter":
					nxt := st.NewIter(s, true, false)
					for i := 0; i < 4; i++ {
						k, v := nxt()
						if k == nil {
							break
						}
						cb(k, v)
					}
				}
			})
			w.Trans++
			w.Tick()
			if len(b.Keys) == 0 {
				// nothing un-indexed can be yielded from an empty trie: panic or empty scan
				if yielded > 0 {
					return &h.Viol{Sig: "scan-yields-from-empty", Msg: fmt.Sprintf("%s on an empty incomplete trie yielded %s", api, briefQ(first))}
				}
				w.DontCare++
				continue
			}
			if yielded > 0 {
				return &h.Viol{Sig: "scan-not-refused", Msg: fmt.Sprintf("%s(%s) on a trie without complete keys yielded %d entries (first %s) instead of refusing", api, briefQ(s), yielded, briefQ(first))}
			}
			if p == nil {
				return &h.Viol{Sig: "scan-not-refused", Msg: fmt.Sprintf("%s(%s) on a trie without complete keys did not refuse (no panic, empty result)", api, briefQ(s))}
			}
			w.Outcome("refused")
		}
	}
	return nil
}

func runC04(r *h.Run) {
	p := defaultProfile()
	p.noOptArg = true
	p.manyLate = true
	p.quickIDk, p.quickScafK = 3, 2
	p.thoroughIDk, p.thoroughScafK = 5, 2
	p.u85k, p.shiftScafK = 2, 1 // the scan oracle costs about 10x a lookup oracle per trie
	p.shortQuick = []int{2}
	if r.Tier == "quick" {
		keep := map[string]bool{"tailsweep": true, "sweep": true, "stepsweep": true, "lift3": true, "bigroot-in": true, "bigroot-mid": true, "big2-in": true, "big2-under": true, "short2": true, "short2-mixed": true, "shift3": true, "shift30": true, "bigpair0": true, "bigpair1": true, "bigpair2": true, "bigpair3": true, "bignib": true, "bigalias": true}
		p.scaffoldFilter = func(n string) bool { return keep[n] }
	}
	r.Rule = "all 16 option combinations + no-Opt form over the key/value space of C03 (id: K(U21,3) quick / K(U21,5) thorough; scaffolds over K(U21,2); K(U85,2), 130 shift offsets over K(U21,1) and large families in thorough); complete tries: NewIter as a state machine from every start of Q x both inclusivities x withValue (next() until nil, then 3 more calls), ScanFrom likewise, callback returning false after every j = 0..n from every start of the neighbourhood set E, ScanFromTo over E x E (thorough: E x Q) x 4 inclusivity combinations, and every interleaving of the next() calls of two iterators with result lists <= 3; encoders I32 everywhere, String16 and VarEnc (variable / zero width) on small sets, and no values; incomplete tries: ScanFrom, ScanFromTo and NewIter must panic before yielding anything (empty incomplete trie: panic or empty scan). Oracle: the slice of the sorted retained list selected by the bounds with Encode(v) bytes; scans are reads: the instance marshals to the same bytes after all scans as before and still finds every retained key"
	r.Assumptions = append([]string{"keys and values are copied on receipt (documented as temporary slices)", "nil and empty value bytes are interchangeable"}, commonAssumptions...)
	thorough := r.Tier == "thorough"
	phases := buildPhases(r, p)
	for _, ph := range phases {
		ph := ph
		r.Phase(ph.name, ph.gen, func(w *h.Worker, x interface{}) {
			w.Scratch["thorough"] = thorough
			u := x.(*inputSpec)
			u.sharedOnlyC = true
			w.Begin(func() string { return fmt.Sprintf("C04 unit %s keys=%d", u.sc.Name, len(u.sc.Keys)) })
			u.cases(func(c *h.Case) bool {
				if v := evalTrieCase(w, c, u, oracleC04, true); v != nil {
					v.Unit = w.Unit()
					if w.Report(*v) {
						return false
					}
					return !w.Stopped()
				}
				return !w.Stopped()
			})
		})
	}
}
