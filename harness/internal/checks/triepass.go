package checks

import (
	"fmt"
	"reflect"

	"github.com/openacid/slim/trie"
	"verif/internal/h"
)

// inputSpec is one unit of the shared trie enumeration: a (scaffolded) key list
// plus the dimensions the worker expands exhaustively.
type inputSpec struct {
	sc          *h.Scaffolded
	qs          []string // query strings for this unit
	encs        []string
	opts        []h.Opt4
	insts       []string
	zig         bool // also the zigzag value variant
	nilVals     bool // also the value-less variant
	fillerModes []string
	maxPatterns int // cap on run patterns (0 = all 2^(nvar-1)); large families use explicit lists
	patterns    []uint64
	noOptArg    bool // also the "no Opt argument" call form
	tag         string
	explicitIDs []int // large families: one explicit value id list
	explicitNil bool  // large families: value-less
	rev         bool  // ask everything a second time on the same instance, in reverse order
	sharedOnlyC bool  // shared-cell and minimal option forms only for the combinations with Complete=true (checks with a heavy oracle)
	qsRev       []string
}

// cases expands the unit into build inputs, simplest first.
func (u *inputSpec) cases(fn func(c *h.Case) bool) {
	nv := u.sc.NVar()
	var pats []uint64
	if u.patterns != nil {
		pats = u.patterns
	} else {
		np := uint64(1)
		if nv > 1 {
			np = 1 << uint(nv-1)
		}
		for p := uint64(0); p < np; p++ {
			pats = append(pats, np-1-p) // all-distinct first
		}
	}
	fms := u.fillerModes
	if len(fms) == 0 {
		fms = []string{"distinct"}
	}
	type vl struct{ ids []int }
	var vals []vl
	if u.explicitIDs != nil || u.explicitNil {
		for _, enc := range u.encs {
			for _, o := range u.opts {
				if !fn(&h.Case{Keys: u.sc.Keys, ValIDs: u.explicitIDs, Enc: enc, Opt: o}) {
					return
				}
			}
		}
		return
	}
	if u.nilVals {
		vals = append(vals, vl{nil})
	}
	for _, fm := range fms {
		for _, p := range pats {
			vals = append(vals, vl{u.sc.ValIDs(p, false, fm)})
			if u.zig && p != 0 {
				z := u.sc.ValIDs(p, true, fm)
				if !reflect.DeepEqual(z, vals[len(vals)-1].ids) {
					vals = append(vals, vl{z})
				}
			}
		}
		if len(u.sc.Keys) == u.sc.NVar() {
			break // no filler: filler modes are identical
		}
	}
	for _, enc := range u.encs {
		for _, v := range vals {
			for _, o := range u.opts {
				c := &h.Case{Keys: u.sc.Keys, ValIDs: v.ids, Enc: enc, Opt: o}
				if !fn(c) {
					return
				}
			}
			if u.noOptArg {
				c := &h.Case{Keys: u.sc.Keys, ValIDs: v.ids, Enc: enc, Opt: h.Opt4{D: -1, I: -1, L: -1, C: -1}, NoOptArg: true}
				if !fn(c) {
					return
				}
				// the same option combinations with the fields sharing one cell per
				// Boolean value (fresh instance only: the form only matters to the build)
				for _, o := range u.opts {
					if u.sharedOnlyC && o.C != 1 {
						continue
					}
					c := &h.Case{Keys: u.sc.Keys, ValIDs: v.ids, Enc: enc, Opt: o, SharedCells: true}
					if !fn(c) {
						return
					}
				}
				// ... and with the fields that carry their default left nil
				// (Opt{Complete: trie.Bool(true)} is how most callers write it)
				for _, o := range u.opts {
					if o.D == 0 && o.I == 1 && o.L == 1 && o.C == 1 {
						continue // nothing at its default: same as the explicit form
					}
					if u.sharedOnlyC && o.C != 1 {
						continue
					}
					c := &h.Case{Keys: u.sc.Keys, ValIDs: v.ids, Enc: enc, Opt: o, Minimal: true}
					if !fn(c) {
						return
					}
				}
			}
		}
	}
}

// trieOracle checks one instance of one built trie; it returns a violation or nil.
// It must count the compared API calls in w.Trans.
type trieOracle func(w *h.Worker, b *h.Built, inst string, st *trie.SlimTrie, u *inputSpec) *h.Viol

// trieCaseJSON is the replay payload of a single-trie violation.
type trieCaseJSON struct {
	h.CaseJSON
	Inst       string   `json:"instance"`
	QueriesHex []string `json:"queries_hex,omitempty"`
	Scaffold   string   `json:"scaffold,omitempty"`
	Rev        bool     `json:"reverse_sweep,omitempty"`
}

func eqVal(a, b interface{}) bool {
	// fast paths for the common value types
	switch x := a.(type) {
	case nil:
		return b == nil
	case int32:
		y, ok := b.(int32)
		return ok && x == y
	case string:
		y, ok := b.(string)
		return ok && x == y
	}
	return reflect.DeepEqual(a, b)
}

func valKey(v interface{}) string { return fmt.Sprintf("%T:%v", v, v) }

// measure records structural features of a trie from its exported message.
func measure(w *h.Worker, b *h.Built, stream []byte) {
	s := h.DecodeSlim(stream)
	if s.BigInnerCnt > 0 {
		w.Feature("tries_with_257bit_nodes")
	}
	w.Feature(fmt.Sprintf("tries_shortsize_%d", s.ShortSize))
	if s.ShortSize > 0 && s.ShortBM != nil {
		nshort := 0
		for _, x := range s.ShortBM.Words {
			for ; x != 0; x &= x - 1 {
				nshort++
			}
		}
		ninner := 0
		if s.NodeTypeBM != nil {
			for _, x := range s.NodeTypeBM.Words {
				for ; x != 0; x &= x - 1 {
					ninner++
				}
			}
		}
		if nshort > 0 && nshort < ninner-int(s.BigInnerCnt) {
			w.Feature("tries_mixing_short_and_17bit_nodes")
		}
		if nshort > 0 {
			w.Feature("tries_with_short_nodes")
		}
		// does a short node straddle a 64-bit word of Inners?
		ith, ishort := 0, 0
		straddle := false
		for wi, x := range s.NodeTypeBM.Words {
			_ = wi
			for ; x != 0; x &= x - 1 {
				if ith >= int(s.BigInnerCnt) {
					isShort := ith>>6 < len(s.ShortBM.Words) && s.ShortBM.Words[ith>>6]>>(uint(ith)&63)&1 == 1
					if isShort {
						from := 240*int(s.BigInnerCnt) + 17*ith + (int(s.ShortSize)-17)*ishort
						if from&63 > 64-int(s.ShortSize) {
							straddle = true
						}
						ishort++
					}
				}
				ith++
			}
		}
		if straddle {
			w.Feature("tries_with_short_node_straddling_a_word")
		}
	}
	if len(b.Kept) >= 65 {
		w.Feature("tries_with_65plus_leaves")
	}
	if s.InnerPrefixes != nil && s.InnerPrefixes.EltCnt >= 33 {
		w.Feature("tries_with_33plus_inner_prefixes")
	}
	if s.InnerPrefixes != nil && s.InnerPrefixes.EltCnt >= 129 {
		w.Feature("tries_with_129plus_inner_prefixes")
	}
	if s.LeafPrefixes != nil && s.LeafPrefixes.PositionBM != nil && len(s.LeafPrefixes.PositionBM.SelectIndex) >= 3 {
		w.Feature("tries_with_65plus_leaf_prefixes")
	}
	if len(b.Kept) < len(b.Keys) {
		w.Feature("tries_with_deduplicated_keys")
	}
	if len(b.Keys) > 0 && b.Keys[0] == "" {
		w.Feature("tries_with_empty_key")
	}
}

// runTriePass drives the shared enumeration for a single-trie property.
func runTriePass(r *h.Run, phases []phase, oracle trieOracle, accept func(c *h.Case) bool) {
	for _, ph := range phases {
		ph := ph
		r.Phase(ph.name, ph.gen, func(w *h.Worker, x interface{}) {
			u := x.(*inputSpec)
			w.Begin(func() string { return fmt.Sprintf("%s unit %s keys=%d", r.Prop, u.sc.Name, len(u.sc.Keys)) })
			u.cases(func(c *h.Case) bool {
				if accept != nil && !accept(c) {
					return true
				}
				if v := evalTrieCase(w, c, u, oracle, true); v != nil {
					v = shrinkTrieCase(w, c, u, oracle, v)
					v.Unit = w.Unit()
					if w.Report(*v) {
						return false
					}
					return !w.Stopped()
				}
				return !w.Stopped()
			})
		})
	}
}

// shrinkTrieCase minimises a violating case: keys (with their values) are
// dropped one at a time while the same oracle still reports the same kind of
// violation on the same instance kind.  The result is still a real failing
// input of the implementation; at most 300 re-evaluations.
func shrinkTrieCase(w *h.Worker, c *h.Case, u *inputSpec, oracle trieOracle, v *h.Viol) *h.Viol {
	tj, ok := v.Case.(trieCaseJSON)
	if !ok || len(c.Keys) <= 1 {
		return v
	}
	cur := *c
	best := v
	budget := 300
	uu := *u
	uu.insts = []string{tj.Inst}
	for changed := true; changed && budget > 0; {
		changed = false
		for i := len(cur.Keys) - 1; i >= 0 && budget > 0; i-- {
			if len(cur.Keys) <= 1 {
				break
			}
			cand := cur
			cand.Keys = append(append([]string{}, cur.Keys[:i]...), cur.Keys[i+1:]...)
			if cur.ValIDs != nil {
				cand.ValIDs = append(append([]int{}, cur.ValIDs[:i]...), cur.ValIDs[i+1:]...)
			}
			sc := &h.Scaffolded{Name: u.sc.Name + "(shrunk)", Keys: cand.Keys, IsVar: make([]bool, len(cand.Keys)), Lift: u.sc.Lift}
			uu.sc = sc
			budget--
			nv := evalTrieCase(w, &cand, &uu, oracle, false)
			if nv != nil && nv.Sig == v.Sig {
				cur = cand
				best = nv
				changed = true
			}
		}
	}
	if best != v {
		best.Msg += fmt.Sprintf(" (minimised from %d keys)", len(c.Keys))
	}
	return best
}

// evalTrieCase builds one case, walks its instances and applies the oracle.
func evalTrieCase(w *h.Worker, c *h.Case, u *inputSpec, oracle trieOracle, record bool) *h.Viol {
	b, p := h.Build(c)
	mkViol := func(sig, msg, inst string) *h.Viol {
		tj := trieCaseJSON{CaseJSON: c.JSON(), Inst: inst, Scaffold: u.sc.Name, Rev: u.rev}
		if len(u.qs) <= 2000 {
			for _, q := range u.qs {
				tj.QueriesHex = append(tj.QueriesHex, fmt.Sprintf("%x", q))
			}
		}
		return &h.Viol{Sig: sig, Msg: msg + " | " + c.Brief() + " inst=" + inst, Kind: "trie", Case: tj}
	}
	if p != nil || b.Err != nil {
		// rejected valid input is C08's business; here the premise "a trie built from" is not met
		if record {
			w.DontCare++
			w.Feature("build_rejected_or_panicked")
		}
		return nil
	}
	if record {
		w.Evals++
		w.Tick()
	}
	// a bystander: another trie (same encoder and options, keys with steps, stored
	// prefixes and tails of its own) is built between this build and its
	// questions; whatever the build path shares between tries is overwritten by it
	{
		bc := &h.Case{Keys: bystanderKeys, Enc: c.Enc, Opt: c.Opt, NoOptArg: c.NoOptArg, SharedCells: c.SharedCells, Minimal: c.Minimal}
		if c.ValIDs != nil {
			bc.ValIDs = []int{3, 2, 2, 1}
		}
		h.Build(bc)
	}
	var stream []byte
	if record {
		stream, _ = b.ST.Marshal()
		hash := h.Hash64(stream, []byte(c.Opt.String()), []byte(c.Enc))
		w.State(hash, len(b.Kept) >= 2)
		measure(w, b, stream)
		w.Sample(map[string]interface{}{"scaffold": u.sc.Name, "case": c.Brief(), "queries": len(u.qs), "instances": u.insts})
	}
	insts := u.insts
	if c.SharedCells || c.Minimal {
		insts = []string{h.InstFresh}
	}
	for _, inst := range insts {
		var st *trie.SlimTrie
		var lerr error
		pp := h.Safely(func() {
			m, err := b.Instances([]string{inst})
			if err != nil {
				lerr = err
				return
			}
			st = m[inst]
		})
		if pp != nil {
			return mkViol("load-panic", fmt.Sprintf("loading instance %s panicked: %v", inst, pp), inst)
		}
		if lerr != nil {
			return mkViol("load-error", lerr.Error(), inst)
		}
		var v *h.Viol
		pp = h.Safely(func() {
			v = oracle(w, b, inst, st, u)
			if v == nil && u.rev {
				// a read must return the same whatever was asked before it: the
				// whole oracle once more on the same instance, in reverse order
				if u.qsRev == nil && len(u.qs) > 0 {
					u.qsRev = make([]string, len(u.qs))
					for i, q := range u.qs {
						u.qsRev[len(u.qs)-1-i] = q
					}
				}
				uu := *u
				uu.qs = u.qsRev
				// between the sweeps: the reads that no lookup oracle performs (a full
				// scan with keys and values where scanning is supported, Stat,
				// Marshal); reads must leave the instance as it was
				h.Safely(func() {
					st.Stat()
					st.Marshal()
					if b.Opt.IsComplete() {
						nxt := st.NewIter("", true, true)
						for k, _ := nxt(); k != nil; k, _ = nxt() {
						}
						st.ScanFrom("", true, false, func(k, v []byte) bool { return true })
					}
				})
				w.Rev = true
				v = oracle(w, b, inst, st, &uu)
				if v != nil {
					v.Msg += " (second sweep over the same instance, reverse order)"
				}
			}
		})
		w.Rev = false
		if pp != nil {
			return mkViol("panic", fmt.Sprintf("panic: %v", pp), inst)
		}
		if v != nil {
			vv := mkViol(v.Sig, v.Msg, inst)
			return vv
		}
	}
	return nil
}

var bystanderKeys = []string{"by", "bystander/aaaa1", "bystander/aaaa2-tail", "bystander/b"}

type phase struct {
	name string
	gen  func(emit func(u interface{}) bool)
}

// replayTrie re-executes a single-trie case with the oracle of its property.
func replayTrie(prop string, tj trieCaseJSON) *h.Viol {
	oracle, ok := trieOracles[prop]
	if !ok {
		return &h.Viol{Msg: "no single-trie oracle for " + prop}
	}
	c := tj.CaseJSON.Case()
	sc := &h.Scaffolded{Name: tj.Scaffold, Keys: c.Keys, IsVar: make([]bool, len(c.Keys)), Lift: func(q string) string { return q }}
	u := &inputSpec{sc: sc, insts: []string{tj.Inst}, rev: tj.Rev}
	for _, qh := range tj.QueriesHex {
		var b []byte
		fmt.Sscanf(qh, "%x", &b)
		u.qs = append(u.qs, string(b))
	}
	w := h.NewRun(prop, "quick", 0, "model_checking", 0).W0()
	return evalTrieCase(w, c, u, oracle, false)
}

var trieOracles = map[string]trieOracle{}
