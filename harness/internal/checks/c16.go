package checks

import (
	"bytes"
	"encoding/binary"
	"fmt"
	"reflect"
	"strings"
	"time"

	"github.com/golang/protobuf/proto"
	"github.com/openacid/errors"
	"github.com/openacid/slim/array"
	"github.com/openacid/slim/encode"
	"verif/internal/h"
)

func init() {
	register(&Check{ID: "C16", Level: "model_checking", Run: runC16, QuickBudget: 400 * time.Second, ThoroughBudget: 30 * time.Minute})
	Replayers["c16"] = replayC16
}

// arr is a uniform view of one compacted array instance.
type arr struct {
	get      func(i int32) (uint64, bool) // typed accessor (value as raw bits)
	getBytes func(i int32) ([]byte, bool) // Base.GetBytes
	span     func() int32
	msg      proto.Message
}

type arrKind struct {
	name  string
	width int
	// build from indexes and raw values
	build func(idx []int32, vals []uint64) (*arr, error)
	// empty typed instance for unmarshal
	empty func() *arr
	// generic array.Array over the same element type
	generic      func(idx []int32, vals []uint64) (*array.Array, error)
	genericEmpty func() (*array.Array, error)
	toIface      func(v uint64) interface{}
}

type structElt struct {
	A uint16
	B int32
	C [2]uint8
}

func structOf(v uint64) structElt {
	return structElt{A: uint16(v), B: int32(v >> 16), C: [2]uint8{uint8(v >> 48), uint8(v >> 56)}}
}

func structBytes(v uint64) []byte {
	return []byte{byte(v), byte(v >> 8), byte(v >> 16), byte(v >> 24), byte(v >> 32), byte(v >> 40), byte(v >> 48), byte(v >> 56)}
}

func spanOf(b *array.Base) int32 { return int32(len(b.Bitmaps)) * 64 }

func arrKinds() []arrKind {
	var ks []arrKind
	// U16
	{
		mk := func(a *array.U16) *arr {
			return &arr{get: func(i int32) (uint64, bool) { v, ok := a.Get(i); return uint64(v), ok },
				getBytes: func(i int32) ([]byte, bool) { return a.GetBytes(i, 2) }, span: func() int32 { return spanOf(&a.Base) }, msg: a}
		}
		conv := func(vals []uint64) []uint16 {
			r := make([]uint16, len(vals))
			for i, v := range vals {
				r[i] = uint16(v)
			}
			return r
		}
		ks = append(ks, arrKind{"U16", 2,
			func(idx []int32, vals []uint64) (*arr, error) {
				a, err := array.NewU16(idx, conv(vals))
				if err != nil {
					if a != nil {
						return nil, fmt.Errorf("non-nil array with error")
					}
					return nil, err
				}
				return mk(a), nil
			},
			func() *arr { return mk(&array.U16{}) },
			func(idx []int32, vals []uint64) (*array.Array, error) { return array.New(idx, conv(vals)) },
			func() (*array.Array, error) { return array.NewEmpty(uint16(0)) },
			func(v uint64) interface{} { return uint16(v) }})
	}
	// U32
	{
		mk := func(a *array.U32) *arr {
			return &arr{get: func(i int32) (uint64, bool) { v, ok := a.Get(i); return uint64(v), ok },
				getBytes: func(i int32) ([]byte, bool) { return a.GetBytes(i, 4) }, span: func() int32 { return spanOf(&a.Base) }, msg: a}
		}
		conv := func(vals []uint64) []uint32 {
			r := make([]uint32, len(vals))
			for i, v := range vals {
				r[i] = uint32(v)
			}
			return r
		}
		ks = append(ks, arrKind{"U32", 4,
			func(idx []int32, vals []uint64) (*arr, error) {
				a, err := array.NewU32(idx, conv(vals))
				if err != nil {
					if a != nil {
						return nil, fmt.Errorf("non-nil array with error")
					}
					return nil, err
				}
				return mk(a), nil
			},
			func() *arr { return mk(&array.U32{}) },
			func(idx []int32, vals []uint64) (*array.Array, error) { return array.New(idx, conv(vals)) },
			func() (*array.Array, error) { return array.NewEmpty(uint32(0)) },
			func(v uint64) interface{} { return uint32(v) }})
	}
	// U64
	{
		mk := func(a *array.U64) *arr {
			return &arr{get: func(i int32) (uint64, bool) { v, ok := a.Get(i); return uint64(v), ok },
				getBytes: func(i int32) ([]byte, bool) { return a.GetBytes(i, 8) }, span: func() int32 { return spanOf(&a.Base) }, msg: a}
		}
		conv := func(vals []uint64) []uint64 { return append([]uint64{}, vals...) }
		ks = append(ks, arrKind{"U64", 8,
			func(idx []int32, vals []uint64) (*arr, error) {
				a, err := array.NewU64(idx, conv(vals))
				if err != nil {
					if a != nil {
						return nil, fmt.Errorf("non-nil array with error")
					}
					return nil, err
				}
				return mk(a), nil
			},
			func() *arr { return mk(&array.U64{}) },
			func(idx []int32, vals []uint64) (*array.Array, error) { return array.New(idx, conv(vals)) },
			func() (*array.Array, error) { return array.NewEmpty(uint64(0)) },
			func(v uint64) interface{} { return uint64(v) }})
	}
	// I16
	{
		mk := func(a *array.I16) *arr {
			return &arr{get: func(i int32) (uint64, bool) { v, ok := a.Get(i); return uint64(uint16(v)), ok },
				getBytes: func(i int32) ([]byte, bool) { return a.GetBytes(i, 2) }, span: func() int32 { return spanOf(&a.Base) }, msg: a}
		}
		conv := func(vals []uint64) []int16 {
			r := make([]int16, len(vals))
			for i, v := range vals {
				r[i] = int16(v)
			}
			return r
		}
		ks = append(ks, arrKind{"I16", 2,
			func(idx []int32, vals []uint64) (*arr, error) {
				a, err := array.NewI16(idx, conv(vals))
				if err != nil {
					if a != nil {
						return nil, fmt.Errorf("non-nil array with error")
					}
					return nil, err
				}
				return mk(a), nil
			},
			func() *arr { return mk(&array.I16{}) },
			func(idx []int32, vals []uint64) (*array.Array, error) { return array.New(idx, conv(vals)) },
			func() (*array.Array, error) { return array.NewEmpty(int16(0)) },
			func(v uint64) interface{} { return int16(v) }})
	}
	// I32
	{
		mk := func(a *array.I32) *arr {
			return &arr{get: func(i int32) (uint64, bool) { v, ok := a.Get(i); return uint64(uint32(v)), ok },
				getBytes: func(i int32) ([]byte, bool) { return a.GetBytes(i, 4) }, span: func() int32 { return spanOf(&a.Base) }, msg: a}
		}
		conv := func(vals []uint64) []int32 {
			r := make([]int32, len(vals))
			for i, v := range vals {
				r[i] = int32(v)
			}
			return r
		}
		ks = append(ks, arrKind{"I32", 4,
			func(idx []int32, vals []uint64) (*arr, error) {
				a, err := array.NewI32(idx, conv(vals))
				if err != nil {
					if a != nil {
						return nil, fmt.Errorf("non-nil array with error")
					}
					return nil, err
				}
				return mk(a), nil
			},
			func() *arr { return mk(&array.I32{}) },
			func(idx []int32, vals []uint64) (*array.Array, error) { return array.New(idx, conv(vals)) },
			func() (*array.Array, error) { return array.NewEmpty(int32(0)) },
			func(v uint64) interface{} { return int32(v) }})
	}
	// I64
	{
		mk := func(a *array.I64) *arr {
			return &arr{get: func(i int32) (uint64, bool) { v, ok := a.Get(i); return uint64(v), ok },
				getBytes: func(i int32) ([]byte, bool) { return a.GetBytes(i, 8) }, span: func() int32 { return spanOf(&a.Base) }, msg: a}
		}
		conv := func(vals []uint64) []int64 {
			r := make([]int64, len(vals))
			for i, v := range vals {
				r[i] = int64(v)
			}
			return r
		}
		ks = append(ks, arrKind{"I64", 8,
			func(idx []int32, vals []uint64) (*arr, error) {
				a, err := array.NewI64(idx, conv(vals))
				if err != nil {
					if a != nil {
						return nil, fmt.Errorf("non-nil array with error")
					}
					return nil, err
				}
				return mk(a), nil
			},
			func() *arr { return mk(&array.I64{}) },
			func(idx []int32, vals []uint64) (*array.Array, error) { return array.New(idx, conv(vals)) },
			func() (*array.Array, error) { return array.NewEmpty(int64(0)) },
			func(v uint64) interface{} { return int64(v) }})
	}
	// fixed-size struct: generic Array only (typed accessor = generic one)
	{
		conv := func(vals []uint64) []structElt {
			r := make([]structElt, len(vals))
			for i, v := range vals {
				r[i] = structOf(v)
			}
			return r
		}
		ks = append(ks, arrKind{"struct", 8, nil, nil,
			func(idx []int32, vals []uint64) (*array.Array, error) { return array.New(idx, conv(vals)) },
			func() (*array.Array, error) { return array.NewEmpty(structElt{}) },
			func(v uint64) interface{} { return structOf(v) }})
	}
	// a struct whose encoded size (6 bytes) is not a power of two
	{
		conv := func(vals []uint64) []struct6 {
			r := make([]struct6, len(vals))
			for i, v := range vals {
				r[i] = struct6{A: uint16(v), B: int32(v >> 16)}
			}
			return r
		}
		ks = append(ks, arrKind{"struct6", 6, nil, nil,
			func(idx []int32, vals []uint64) (*array.Array, error) { return array.New(idx, conv(vals)) },
			func() (*array.Array, error) { return array.NewEmpty(struct6{}) },
			func(v uint64) interface{} { return struct6{A: uint16(v), B: int32(v >> 16)} }})
	}
	// unnamed element types (Type.Name() is "" for all of them): an anonymous
	// 12-byte struct, an anonymous 6-byte struct with another layout, [4]byte and
	// [16]byte; the arrays of all kinds live in one process at the same time
	{
		type a12 = struct {
			A uint64
			B uint32
		}
		conv := func(vals []uint64) []a12 {
			r := make([]a12, len(vals))
			for i, v := range vals {
				r[i] = a12{A: v, B: uint32(v >> 7)}
			}
			return r
		}
		ks = append(ks, arrKind{"anon12", 12, nil, nil,
			func(idx []int32, vals []uint64) (*array.Array, error) { return array.New(idx, conv(vals)) },
			func() (*array.Array, error) { return array.NewEmpty(a12{}) },
			func(v uint64) interface{} { return a12{A: v, B: uint32(v >> 7)} }})
	}
	{
		type a6 = struct {
			P int32
			Q uint16
		}
		conv := func(vals []uint64) []a6 {
			r := make([]a6, len(vals))
			for i, v := range vals {
				r[i] = a6{P: int32(v), Q: uint16(v >> 32)}
			}
			return r
		}
		ks = append(ks, arrKind{"anon6", 6, nil, nil,
			func(idx []int32, vals []uint64) (*array.Array, error) { return array.New(idx, conv(vals)) },
			func() (*array.Array, error) { return array.NewEmpty(a6{}) },
			func(v uint64) interface{} { return a6{P: int32(v), Q: uint16(v >> 32)} }})
	}
	{
		mk4 := func(v uint64) [4]byte { return [4]byte{byte(v), byte(v >> 8), byte(v >> 16), byte(v >> 24)} }
		conv := func(vals []uint64) [][4]byte {
			r := make([][4]byte, len(vals))
			for i, v := range vals {
				r[i] = mk4(v)
			}
			return r
		}
		ks = append(ks, arrKind{"arr4", 4, nil, nil,
			func(idx []int32, vals []uint64) (*array.Array, error) { return array.New(idx, conv(vals)) },
			func() (*array.Array, error) { return array.NewEmpty([4]byte{}) },
			func(v uint64) interface{} { return mk4(v) }})
	}
	// the generic array with a PRESET element encoder (Array.EltEncoder is a
	// public field, preset this way by slim itself for pre-0.5.10 leaves): a
	// big-endian TypeEncoder over uint32 and int64, elements passed as a plain
	// integer slice
	{
		preset := func(zero interface{}) *array.Array {
			te, err := encode.NewTypeEncoderEndian(zero, binary.BigEndian)
			if err != nil {
				panic(err)
			}
			a := &array.Array{}
			a.EltEncoder = te
			return a
		}
		conv32 := func(vals []uint64) []uint32 {
			r := make([]uint32, len(vals))
			for i, v := range vals {
				r[i] = uint32(v)
			}
			return r
		}
		ks = append(ks, arrKind{"U32be", 4, nil, nil,
			func(idx []int32, vals []uint64) (*array.Array, error) {
				a := preset(uint32(0))
				if err := a.Init(idx, conv32(vals)); err != nil {
					return nil, err
				}
				return a, nil
			},
			func() (*array.Array, error) { return preset(uint32(0)), nil },
			func(v uint64) interface{} { return uint32(v) }})
		conv64 := func(vals []uint64) []int64 {
			r := make([]int64, len(vals))
			for i, v := range vals {
				r[i] = int64(v)
			}
			return r
		}
		ks = append(ks, arrKind{"I64be", 8, nil, nil,
			func(idx []int32, vals []uint64) (*array.Array, error) {
				a := preset(int64(0))
				if err := a.Init(idx, conv64(vals)); err != nil {
					return nil, err
				}
				return a, nil
			},
			func() (*array.Array, error) { return preset(int64(0)), nil },
			func(v uint64) interface{} { return int64(v) }})
	}
	return ks
}

type struct6 struct {
	A uint16
	B int32
}

func maskW(v uint64, width int) uint64 {
	if width >= 8 {
		return v
	}
	return v & (uint64(1)<<(8*uint(width)) - 1)
}

// checkArr compares one instance (typed view and/or generic array) with the map.
func checkArr(w *h.Worker, k arrKind, a *arr, g *array.Array, ref map[int32]uint64, probes []int32, stage string) string {
	for _, i := range probes {
		want, present := ref[i]
		want = maskW(want, k.width)
		if a != nil && i < a.span() {
			v, ok := a.get(i)
			w.Trans++
			if ok != present || (ok && v != want) || (!ok && v != 0) {
				return fmt.Sprintf("%s: typed Get(%d) = (%#x,%v), want (%#x,%v)", stage, i, v, ok, want, present)
			}
			bs, ok2 := a.getBytes(i)
			w.Trans++
			if ok2 != present || (present && !bytes.Equal(bs, refLE(want, k.width))) || (!present && bs != nil) {
				return fmt.Sprintf("%s: GetBytes(%d) = (%x,%v), want (%x,%v)", stage, i, bs, ok2, refLE(want, k.width), present)
			}
		}
		if g != nil && i < spanOf(&g.Base) {
			v, ok := g.Get(i)
			w.Trans++
			var wantI interface{}
			if present {
				wantI = k.toIface(want)
			}
			if ok != present || !reflect.DeepEqual(v, wantI) {
				return fmt.Sprintf("%s: generic Get(%d) = (%v,%v), want (%v,%v)", stage, i, v, ok, wantI, present)
			}
			bs, ok2 := g.GetBytes(i, k.width)
			w.Trans++
			wantB := refLE(want, k.width)
			if k.name == "struct" {
				wantB = structBytes(want)
			}
			if k.name == "struct6" {
				wantB = refLE(want, 6) // uint16 then int32, little endian, packed
			}
			switch k.name {
			case "anon12":
				wantB = append(refLE(want, 8), refLE(uint64(uint32(want>>7)), 4)...)
			case "anon6":
				wantB = append(refLE(uint64(uint32(want)), 4), refLE(uint64(uint16(want>>32)), 2)...)
			case "arr4":
				wantB = refLE(want, 4)
			case "U32be", "I64be":
				wantB = refBE(want, k.width)
			}
			if ok2 != present || (present && !bytes.Equal(bs, wantB)) {
				return fmt.Sprintf("%s: generic GetBytes(%d) = (%x,%v), want (%x,%v)", stage, i, bs, ok2, wantB, present)
			}
		}
	}
	return ""
}

type c16Case struct {
	Kind    string   `json:"kind"`
	Indexes []int32  `json:"indexes"`
	Values  []uint64 `json:"values"`
	Invalid string   `json:"invalid,omitempty"` // "", "order", "len"
	NElts   int      `json:"n_elts,omitempty"`
	History []int    `json:"history,omitempty"` // receiver history: op = 2*content + form (0 Init, 1 proto.Unmarshal)
}

func kindByName(n string) arrKind {
	for _, k := range arrKinds() {
		if k.name == n {
			return k
		}
	}
	panic("kind " + n)
}

// evalC16 builds one array of one kind and checks all accessors and round trips.
func evalC16(w *h.Worker, k arrKind, idx []int32, vals []uint64, probes []int32) string {
	ref := map[int32]uint64{}
	for i, x := range idx {
		ref[x] = vals[i]
	}
	var msg string
	if p := h.Safely(func() {
		var a *arr
		var err error
		if k.build != nil {
			a, err = k.build(idx, vals)
			if err != nil {
				msg = fmt.Sprintf("typed constructor rejected valid input: %v", err)
				return
			}
		}
		g, err := k.generic(idx, vals)
		if err != nil {
			msg = fmt.Sprintf("array.New rejected valid input: %v", err)
			return
		}
		if probes == nil {
			span := spanOf(&g.Base)
			for i := int32(0); i < span; i++ {
				probes = append(probes, i)
			}
		}
		if msg = checkArr(w, k, a, g, ref, probes, "fresh"); msg != "" {
			return
		}
		// round trips: typed -> typed, typed -> generic, generic -> typed, generic -> generic
		var srcs []proto.Message
		if a != nil {
			srcs = append(srcs, a.msg)
		}
		srcs = append(srcs, g)
		for si, src := range srcs {
			buf, err := proto.Marshal(src)
			if err != nil {
				msg = fmt.Sprintf("proto.Marshal failed: %v", err)
				return
			}
			var a2 *arr
			if k.empty != nil {
				a2 = k.empty()
				if err := proto.Unmarshal(buf, a2.msg); err != nil {
					msg = fmt.Sprintf("proto.Unmarshal into typed array failed: %v", err)
					return
				}
			}
			g2, err := k.genericEmpty()
			if err != nil {
				msg = fmt.Sprintf("array.NewEmpty failed: %v", err)
				return
			}
			if err := proto.Unmarshal(buf, g2); err != nil {
				msg = fmt.Sprintf("proto.Unmarshal into generic array failed: %v", err)
				return
			}
			if len(idx) == 0 {
				// an empty array has an empty span after the round trip as well
				if (a2 != nil && a2.span() != 0) || spanOf(&g2.Base) != 0 {
					msg = "empty array has a non-empty span after the round trip"
					return
				}
			}
			if msg = checkArr(w, k, a2, g2, ref, probes, fmt.Sprintf("after round trip of source %d", si)); msg != "" {
				return
			}
		}
	}); p != nil {
		return fmt.Sprintf("panic: %v", p)
	}
	return msg
}

// evalC16Invalid: wrong inputs must be rejected with the dedicated error and build nothing.
func evalC16Invalid(w *h.Worker, k arrKind, idx []int32, nElts int) string {
	vals := make([]uint64, nElts)
	for i := range vals {
		vals[i] = uint64(i + 1)
	}
	asc := true
	for i := 0; i+1 < len(idx); i++ {
		if idx[i] >= idx[i+1] {
			asc = false
		}
	}
	// both defects may be present at once: the statement does not say which of
	// the two dedicated errors wins then, either is accepted
	var wants []error
	if len(idx) != nElts {
		wants = append(wants, array.ErrIndexLen)
	}
	if !asc {
		wants = append(wants, array.ErrIndexNotAscending)
	}
	isWanted := func(err error) bool {
		for _, x := range wants {
			if errors.Cause(err) == x {
				return true
			}
		}
		return false
	}
	var want error
	if len(wants) > 0 {
		want = wants[0]
	}
	var msg string
	if p := h.Safely(func() {
		if k.build != nil {
			a, err := k.build(idx, vals)
			w.Trans++
			if want == nil {
				if err != nil {
					msg = fmt.Sprintf("valid input rejected: %v", err)
				}
			} else {
				if err == nil {
					msg = fmt.Sprintf("typed constructor accepted invalid input (want %v)", want)
				} else if !isWanted(err) {
					msg = fmt.Sprintf("typed constructor returned %v, want %v", err, wants)
				} else if a != nil {
					msg = "typed constructor returned an array together with an error"
				}
			}
			if msg != "" {
				return
			}
		}
		g, err := k.generic(idx, vals)
		w.Trans++
		if want == nil {
			if err != nil {
				msg = fmt.Sprintf("valid input rejected by array.New: %v", err)
			}
			return
		}
		if err == nil {
			msg = fmt.Sprintf("array.New accepted invalid input (want %v)", want)
		} else if !isWanted(err) {
			msg = fmt.Sprintf("array.New returned %v, want %v", err, wants)
		} else if g != nil {
			msg = "array.New returned an array together with an error"
		}
		if msg != "" {
			return
		}
		// "build nothing": a rejected Init leaves its receiver as it was, whether
		// the receiver is new or already holds an array
		for _, populated := range []bool{false, true} {
			recv := &array.Array{}
			if populated {
				if err := recv.Init([]int32{1, 64, 70}, []uint32{7, 8, 9}); err != nil {
					msg = "set-up Init failed: " + err.Error()
					return
				}
			}
			before := h.Digest(recv)
			u32 := make([]uint32, nElts)
			for i := range u32 {
				u32[i] = uint32(100 + i)
			}
			err := recv.Init(idx, u32)
			w.Trans++
			if err == nil {
				msg = "Array.Init accepted invalid input"
				return
			}
			if h.Digest(recv) != before {
				msg = fmt.Sprintf("a rejected Init (%v) changed its receiver (already populated: %v): something was built", err, populated)
				return
			}
			if populated {
				if v, ok := recv.Get(64); !ok || v != uint32(8) {
					msg = fmt.Sprintf("after a rejected Init the populated receiver answers Get(64) = (%v,%v)", v, ok)
					return
				}
			}
		}
	}); p != nil {
		return fmt.Sprintf("panic: %v", p)
	}
	return msg
}

var c16U1 = []int32{0, 1, 2, 31, 62, 63, 64, 65, 127, 128, 129, 255, 256, 300, 511, 512}
var c16U2 = []int32{0, 63, 64, 4095, 4096, 65535, 65536, 65600, 1<<19 - 1, 1 << 19, 1<<20 - 65, 1<<20 - 64, 1<<20 - 2, 1<<20 - 1}

type c16Unit struct {
	kind   string
	lo, hi uint32 // subset masks [lo,hi)
	univ   int
	hist   []int // receiver history
	idx    []int32
}

func c16Value(index int32, pattern int, width int) uint64 {
	lanesV := []uint64{0x00, 0x01, 0x7f, 0x80, 0xff}
	var v uint64
	x := int(index)*7 + pattern*3 + 1
	for b := 0; b < 8; b++ {
		v |= lanesV[(x+b*pattern+b)%5] << (8 * uint(b))
		x /= 2
	}
	return v
}

func runC16(r *h.Run) {
	thorough := r.Tier == "thorough"
	r.Rule = "every subset of the 16-position index universe {0,1,2,31,62,63,64,65,127,128,129,255,256,300,511,512} (65536 sets: dense, sparse, empty 64-bit words, single, empty) and of a 14-position universe reaching 2^20-1; element types U16 U32 U64 I16 I32 I64, a fixed-size 8-byte struct, a 6-byte struct (encoded size not a power of two), three unnamed element types (anonymous 12- and 6-byte structs, [4]byte) whose arrays coexist in the process, and the generic array with a preset big-endian TypeEncoder over uint32 / int64; values f(index,pattern) over the lane alphabet (3 patterns in thorough, 1 in quick), plus all 2^16 values in one-element arrays of the 16-bit types; probes: every index of the bitmap span (second universe: every universe index +-1 and every touched word boundary); typed Get, generic Array.Get and Base.GetBytes against map[int32]T, on the fresh arrays and after proto.Marshal/Unmarshal of both the typed and the generic array into both the typed type and array.NewEmpty(zero); receiver histories: every sequence of 1..3 fills of ONE generic receiver over 5 contents (same indexes with other values, same count at other indexes, another count, empty) x {Init, proto.Unmarshal}, every index of the span read after each fill; invalid: every index sequence of length <= 4 over a 6-position universe and element slices longer or shorter by 1..3 => ErrIndexNotAscending / ErrIndexLen and a nil array. A state is a distinct (kind, index set, pattern); non-trivial = at least 2 elements"
	r.Assumptions = []string{"(zero,false) is claimed within the bitmap span only; probing beyond the span is outside the statement"}
	kinds := arrKinds()
	patterns := 1
	if thorough {
		patterns = 3
	}
	r.Bounds["index_sets_universe1"] = 1 << 16
	r.Bounds["index_sets_universe2"] = 1 << uint(len(c16U2))
	r.Bounds["kinds"] = len(kinds)
	r.Bounds["value_patterns"] = patterns

	probes2 := func() []int32 {
		m := map[int32]bool{}
		for _, u := range c16U2 {
			for _, d := range []int32{-1, 0, 1} {
				if u+d >= 0 {
					m[u+d] = true
				}
			}
			m[u&^63] = true
			m[u|63] = true
		}
		var p []int32
		for k := range m {
			p = append(p, k)
		}
		return p
	}()

	r.Phase("index-sets", func(emit func(u interface{}) bool) {
		for _, k := range kinds {
			const chunk = 512
			for lo := uint32(0); lo < 1<<16; lo += chunk {
				if !emit(c16Unit{kind: k.name, lo: lo, hi: lo + chunk, univ: 1}) {
					return
				}
			}
			for lo := uint32(0); lo < 1<<uint(len(c16U2)); lo += chunk {
				if !emit(c16Unit{kind: k.name, lo: lo, hi: lo + chunk, univ: 2}) {
					return
				}
			}
		}
	}, func(w *h.Worker, x interface{}) {
		u := x.(c16Unit)
		k := kindByName(u.kind)
		univ := c16U1
		var probes []int32
		if u.univ == 2 {
			univ = c16U2
			probes = probes2
		}
		w.Begin(func() string { return fmt.Sprintf("C16 %s sets %d..%d of universe %d", u.kind, u.lo, u.hi, u.univ) })
		for m := u.lo; m < u.hi; m++ {
			var idx []int32
			for b := 0; b < len(univ); b++ {
				if m>>uint(b)&1 == 1 {
					idx = append(idx, univ[b])
				}
			}
			for pat := 0; pat < patterns; pat++ {
				vals := make([]uint64, len(idx))
				for i, ix := range idx {
					vals[i] = c16Value(ix, pat, k.width)
				}
				w.Evals++
				w.Tick()
				w.StatesN++
				if len(idx) >= 2 {
					w.NontrivN++
				}
				if msg := evalC16(w, k, idx, vals, probes); msg != "" {
					w.Report(h.Viol{Sig: "array-" + u.kind, Msg: fmt.Sprintf("array kind %s indexes %v: %s", u.kind, idx, msg), Kind: "c16", Case: c16Case{Kind: u.kind, Indexes: idx, Values: vals}, Unit: w.Unit()})
					return
				}
			}
			if m == 0x8421 {
				w.Sample(map[string]interface{}{"kind": u.kind, "indexes": idx, "universe": u.univ})
			}
		}
		w.Feature("index_set_chunks_" + u.kind)
	})

	// exhaustive 16-bit values in one-element arrays
	r.Phase("16bit-values", func(emit func(u interface{}) bool) {
		for _, kn := range []string{"U16", "I16"} {
			for lo := uint32(0); lo < 1<<16; lo += 4096 {
				if !emit(c16Unit{kind: kn, lo: lo, hi: lo + 4096}) {
					return
				}
			}
		}
	}, func(w *h.Worker, x interface{}) {
		u := x.(c16Unit)
		k := kindByName(u.kind)
		for v := u.lo; v < u.hi; v++ {
			for _, ix := range []int32{0, 63, 64} {
				if !thorough && ix != 63 {
					continue
				}
				w.Evals++
				w.Tick()
				w.StatesN++
				if msg := evalC16(w, k, []int32{ix}, []uint64{uint64(v)}, nil); msg != "" {
					w.Report(h.Viol{Sig: "array-" + u.kind, Msg: fmt.Sprintf("array kind %s one element %#x at %d: %s", u.kind, v, ix, msg), Kind: "c16", Case: c16Case{Kind: u.kind, Indexes: []int32{ix}, Values: []uint64{uint64(v)}}, Unit: w.Unit()})
					return
				}
			}
		}
		w.FeatureN("exhaustive_16bit_values_"+u.kind, int64(u.hi-u.lo))
	})

	// invalid inputs
	iu := []int32{0, 1, 63, 64, 65, 200}
	r.Phase("invalid", func(emit func(u interface{}) bool) {
		for _, k := range kinds {
			emit(c16Unit{kind: k.name})
		}
	}, func(w *h.Worker, x interface{}) {
		u := x.(c16Unit)
		k := kindByName(u.kind)
		var rec func(cur []int32)
		bad := false
		rec = func(cur []int32) {
			if bad {
				return
			}
			// same length (order violations and valid ones), and lengths off by 1..3
			for _, d := range []int{0, -3, -2, -1, 1, 2, 3} {
				n := len(cur) + d
				if n < 0 {
					continue
				}
				w.Evals++
				w.Tick()
				w.StatesN++
				if len(cur) >= 2 {
					w.NontrivN++
				}
				if msg := evalC16Invalid(w, k, cur, n); msg != "" {
					bad = true
					w.Report(h.Viol{Sig: "array-invalid-" + u.kind, Msg: fmt.Sprintf("array kind %s indexes %v with %d elements: %s", u.kind, cur, n, msg), Kind: "c16", Case: c16Case{Kind: u.kind, Indexes: append([]int32{}, cur...), Invalid: "x", NElts: n}, Unit: w.Unit()})
					return
				}
			}
			if len(cur) == 4 {
				return
			}
			for _, v := range iu {
				rec(append(cur, v))
			}
		}
		rec(nil)
		w.Sample(map[string]interface{}{"kind": u.kind, "invalid_sequences": "all index sequences of length <= 4 over {0,1,63,64,65,200} x element counts off by -3..3"})
	})
	// caller memory: every subset of 8 boundary positions x 5 construction forms;
	// everything the caller passed in is overwritten after the build
	r.Bounds["caller_memory"] = "all 256 subsets of {0,1,63,64,65,127,128,300} x " + fmt.Sprint(c16CallerForms)
	r.Phase("caller-memory", func(emit func(u interface{}) bool) {
		pos := []int32{0, 1, 63, 64, 65, 127, 128, 300}
		for _, f := range c16CallerForms {
			for m := 0; m < 256; m++ {
				var ix []int32
				for b, p := range pos {
					if m>>uint(b)&1 == 1 {
						ix = append(ix, p)
					}
				}
				if !emit(c16Unit{kind: "caller-memory:" + f, idx: ix}) {
					return
				}
			}
		}
	}, func(w *h.Worker, x interface{}) {
		u := x.(c16Unit)
		w.Begin(func() string { return "C16 " + u.kind })
		w.Evals++
		w.Tick()
		w.StatesN++
		if len(u.idx) >= 2 {
			w.NontrivN++
		}
		if msg := evalC16CallerMemory(w, strings.TrimPrefix(u.kind, "caller-memory:"), u.idx); msg != "" {
			w.Report(h.Viol{Sig: "array-caller-memory", Msg: msg, Kind: "c16", Case: c16Case{Kind: u.kind, Indexes: u.idx}, Unit: w.Unit()})
		}
	})
	// receiver histories: every sequence of 1..3 fills of ONE generic receiver
	// over 5 contents x {Init, proto.Unmarshal}, everything read after each fill
	r.Bounds["receiver_histories"] = "sequences of 1..3 fills over 5 contents x {Init, proto.Unmarshal} per kind that has a generic form"
	r.Phase("receiver-histories", func(emit func(u interface{}) bool) {
		for _, k := range kinds {
			var rec func(cur []int) bool
			rec = func(cur []int) bool {
				if len(cur) > 0 {
					if !emit(c16Unit{kind: k.name, hist: append([]int{}, cur...)}) {
						return false
					}
				}
				if len(cur) == 3 {
					return true
				}
				for op := 0; op < 10; op++ {
					if !rec(append(cur, op)) {
						return false
					}
				}
				return true
			}
			if !rec(nil) {
				return
			}
		}
	}, func(w *h.Worker, x interface{}) {
		u := x.(c16Unit)
		k := kindByName(u.kind)
		w.Begin(func() string { return fmt.Sprintf("C16 %s receiver history %v", u.kind, u.hist) })
		w.Evals++
		w.Tick()
		w.StatesN++
		if len(u.hist) >= 2 {
			w.NontrivN++
		}
		if msg := evalC16History(w, k, u.hist); msg != "" {
			w.Report(h.Viol{Sig: "array-history-" + u.kind, Msg: fmt.Sprintf("array kind %s: %s", u.kind, msg), Kind: "c16", Case: c16Case{Kind: u.kind, History: u.hist}, Unit: w.Unit()})
			return
		}
		if len(u.hist) == 3 && u.hist[0] == 3 {
			w.Sample(map[string]interface{}{"kind": u.kind, "receiver_history": u.hist})
		}
	})
}

// ---------- caller memory ----------

var c16CallerForms = []string{"NewU32", "NewI64", "New([]uint16)", "preset Bytes{4} Init([][]byte)", "preset Bytes{3} Init([][]byte)"}

// evalC16CallerMemory builds one array from caller-owned index and element
// slices, then overwrites everything the caller passed in (the index slice, the
// element slice, and for [][]byte elements the bytes of every element): the
// array must still be the sparse map it was built as.
func evalC16CallerMemory(w *h.Worker, form string, idx []int32) (msg string) {
	defer func() {
		if r := recover(); r != nil {
			msg = fmt.Sprintf("panic: %v", r)
		}
	}()
	ix := append([]int32{}, idx...)
	ref := map[int32][]byte{}
	valOf := func(i int32, width int) []byte {
		b := make([]byte, width)
		for j := range b {
			b[j] = byte(int(i)*7 + j*31 + 1)
		}
		return b
	}
	var get func(i int32) ([]byte, bool)
	var scribble func()
	switch form {
	case "NewU32":
		el := make([]uint32, len(ix))
		for j, i := range ix {
			b := valOf(i, 4)
			ref[i] = b
			el[j] = binary.LittleEndian.Uint32(b)
		}
		a, err := array.NewU32(ix, el)
		if err != nil {
			return "constructor failed: " + err.Error()
		}
		get = func(i int32) ([]byte, bool) {
			v, ok := a.Get(i)
			if !ok {
				return nil, false
			}
			b := make([]byte, 4)
			binary.LittleEndian.PutUint32(b, v)
			return b, true
		}
		scribble = func() {
			for j := range el {
				el[j] = 0xa5a5a5a5
			}
		}
	case "NewI64":
		el := make([]int64, len(ix))
		for j, i := range ix {
			b := valOf(i, 8)
			ref[i] = b
			el[j] = int64(binary.LittleEndian.Uint64(b))
		}
		a, err := array.NewI64(ix, el)
		if err != nil {
			return "constructor failed: " + err.Error()
		}
		get = func(i int32) ([]byte, bool) {
			v, ok := a.Get(i)
			if !ok {
				return nil, false
			}
			b := make([]byte, 8)
			binary.LittleEndian.PutUint64(b, uint64(v))
			return b, true
		}
		scribble = func() {
			for j := range el {
				el[j] = -1
			}
		}
	case "New([]uint16)":
		el := make([]uint16, len(ix))
		for j, i := range ix {
			b := valOf(i, 2)
			ref[i] = b
			el[j] = binary.LittleEndian.Uint16(b)
		}
		a, err := array.New(ix, el)
		if err != nil {
			return "constructor failed: " + err.Error()
		}
		get = func(i int32) ([]byte, bool) {
			v, ok := a.Get(i)
			if !ok {
				return nil, false
			}
			b := make([]byte, 2)
			binary.LittleEndian.PutUint16(b, v.(uint16))
			return b, true
		}
		scribble = func() {
			for j := range el {
				el[j] = 0xffff
			}
		}
	default:
		width := 4
		if strings.Contains(form, "Bytes{3}") {
			width = 3
		}
		el := make([][]byte, len(ix))
		for j, i := range ix {
			ref[i] = valOf(i, width)
			el[j] = append([]byte{}, ref[i]...)
		}
		a := &array.Array{}
		a.EltEncoder = encode.Bytes{Size: width}
		if err := a.Init(ix, el); err != nil {
			return "Init failed: " + err.Error()
		}
		get = func(i int32) ([]byte, bool) {
			v, ok := a.Get(i)
			if !ok {
				return nil, false
			}
			return append([]byte{}, v.([]byte)...), true
		}
		scribble = func() {
			for j := range el {
				for x := range el[j] {
					el[j][x] = 0x5a
				}
				el[j] = nil
			}
		}
	}
	for pass := 0; pass < 2; pass++ {
		span := int32(0)
		if len(idx) > 0 {
			span = (idx[len(idx)-1]>>6 + 1) << 6 // (zero,false) is claimed within the bitmap span only
		}
		for i := int32(0); i < span; i++ {
			want, present := ref[i]
			v, ok := get(i)
			w.Trans++
			if ok != present || (ok && !bytes.Equal(v, want)) {
				when := "right after the build"
				if pass == 1 {
					when = "after the caller overwrote the index and element slices it had passed in"
				}
				return fmt.Sprintf("%s, %s: Get(%d) = (%x,%v), want (%x,%v) | indexes %v", form, when, i, v, ok, want, present, idx)
			}
		}
		for j := range ix {
			ix[j] = 7
		}
		scribble()
	}
	return ""
}

// ---------- receiver histories ----------

// c16Contents is the content alphabet of the receiver histories: same indexes
// with other values, the same count at other indexes, another count, empty.
func c16Contents(width int) (idx [][]int32, vals [][]uint64) {
	idx = [][]int32{{1, 5, 64}, {1, 5, 64}, {0, 63, 200}, {2, 3, 4, 70, 300}, {}}
	for ci, ix := range idx {
		v := make([]uint64, len(ix))
		for i, x := range ix {
			v[i] = c16Value(x, ci%3, width) + uint64(ci)*0x0101010101010101
		}
		vals = append(vals, v)
	}
	return
}

// typedElts makes the typed element slice of a kind from raw values.
func typedElts(k arrKind, vals []uint64) interface{} {
	t := reflect.TypeOf(k.toIface(0))
	sl := reflect.MakeSlice(reflect.SliceOf(t), len(vals), len(vals))
	for i, v := range vals {
		sl.Index(i).Set(reflect.ValueOf(k.toIface(v)))
	}
	return sl.Interface()
}

// evalC16History fills ONE generic receiver several times (Init, or
// proto.Unmarshal of the bytes of a separately built array), reading everything
// after each fill: the receiver must always behave as the array of the last fill.
func evalC16History(w *h.Worker, k arrKind, hist []int) string {
	cidx, cvals := c16Contents(k.width)
	var msg string
	if p := h.Safely(func() {
		g, err := k.genericEmpty()
		if err != nil {
			msg = "array.NewEmpty failed: " + err.Error()
			return
		}
		for step, op := range hist {
			ci, form := op/2, op%2
			ref := map[int32]uint64{}
			for i, x := range cidx[ci] {
				ref[x] = cvals[ci][i]
			}
			src, err := k.generic(cidx[ci], cvals[ci])
			if err != nil {
				msg = "array.New rejected valid input: " + err.Error()
				return
			}
			if form == 0 {
				// the same typed element slice the constructor was given
				if err := g.Init(cidx[ci], typedElts(k, cvals[ci])); err != nil {
					msg = fmt.Sprintf("step %d: Init on a used receiver rejected valid input: %v", step, err)
					return
				}
			} else {
				buf, err := proto.Marshal(src)
				if err != nil {
					msg = "proto.Marshal failed: " + err.Error()
					return
				}
				if err := proto.Unmarshal(buf, g); err != nil {
					msg = fmt.Sprintf("step %d: proto.Unmarshal into a used receiver failed: %v", step, err)
					return
				}
			}
			w.Trans++
			var probes []int32
			for i := int32(0); i < 320; i++ {
				probes = append(probes, i)
			}
			if msg = checkArr(w, k, nil, g, ref, probes, fmt.Sprintf("after fill %d of history %v", step, hist)); msg != "" {
				return
			}
		}
	}); p != nil {
		return fmt.Sprintf("panic: %v", p)
	}
	return msg
}

func replayC16(prop string, raw []byte) *h.Viol {
	var cj c16Case
	if err := jsonUnmarshal(raw, &cj); err != nil {
		return &h.Viol{Msg: err.Error()}
	}
	w := h.NewRun(prop, "quick", 0, "model_checking", 0).W0()
	if strings.HasPrefix(cj.Kind, "caller-memory:") {
		if msg := evalC16CallerMemory(w, strings.TrimPrefix(cj.Kind, "caller-memory:"), cj.Indexes); msg != "" {
			return &h.Viol{Sig: "array-" + cj.Kind, Msg: msg}
		}
		return nil
	}
	k := kindByName(cj.Kind)
	var msg string
	if cj.History != nil {
		msg = evalC16History(w, k, cj.History)
	} else if cj.Invalid != "" {
		msg = evalC16Invalid(w, k, cj.Indexes, cj.NElts)
	} else {
		var probes []int32
		if len(cj.Indexes) > 0 && cj.Indexes[len(cj.Indexes)-1] > 4096 {
			for _, u := range cj.Indexes {
				probes = append(probes, u-1, u, u+1)
			}
			if probes[0] < 0 {
				probes = probes[1:]
			}
		}
		msg = evalC16(w, k, cj.Indexes, cj.Values, probes)
	}
	if msg == "" {
		return nil
	}
	return &h.Viol{Sig: "array-" + cj.Kind, Msg: msg}
}
