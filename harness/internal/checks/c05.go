package checks

import (
	"bytes"
	"encoding/hex"
	"fmt"
	"reflect"
	"runtime"
	"runtime/debug"
	"strings"
	"time"

	"github.com/golang/protobuf/proto"
	"github.com/openacid/slim/encode"
	"github.com/openacid/slim/trie"
	"verif/internal/h"
	"verif/internal/legacy"
)

func init() {
	trieOracles["C05"] = oracleC05
	register(&Check{ID: "C05", Level: "model_checking", Run: runC05, QuickBudget: 400 * time.Second, ThoroughBudget: 45 * time.Minute})
	Replayers["c05hist"] = replayC05Hist
	Replayers["c05build"] = replayC05Build
	Replayers["c05opt"] = replayC05Opt
}

// answers renders every answer of one instance to one query.
func answers(st *trie.SlimTrie, q string, typed bool) string {
	v, f := st.Get(q)
	id := st.GetID(q)
	rv, rf := st.RangeGet(q)
	l, e, r := st.Search(q)
	s := fmt.Sprintf("%v/%v|%d|%v/%v|%v/%v/%v", v, f, id, rv, rf, l, e, r)
	if typed {
		x, xf := st.GetI32(q)
		s += fmt.Sprintf("|%d/%v", x, xf)
	}
	return s
}

// sameAnswers compares every answer of two instances to one query without formatting.
func sameAnswers(a, b *trie.SlimTrie, q string, typed bool) bool {
	v1, f1 := a.Get(q)
	v2, f2 := b.Get(q)
	if f1 != f2 || !eqVal(v1, v2) || a.GetID(q) != b.GetID(q) {
		return false
	}
	v1, f1 = a.RangeGet(q)
	v2, f2 = b.RangeGet(q)
	if f1 != f2 || !eqVal(v1, v2) {
		return false
	}
	l1, e1, r1 := a.Search(q)
	l2, e2, r2 := b.Search(q)
	if !eqVal(l1, l2) || !eqVal(e1, e2) || !eqVal(r1, r2) {
		return false
	}
	if typed {
		x1, g1 := a.GetI32(q)
		x2, g2 := b.GetI32(q)
		if x1 != x2 || g1 != g2 {
			return false
		}
	}
	return true
}

func scanAll(st *trie.SlimTrie, start string, incl, withValue bool, limit int) string {
	var sb strings.Builder
	n := 0
	st.ScanFrom(start, incl, withValue, func(k, v []byte) bool {
		fmt.Fprintf(&sb, "%x=%x,", k, v)
		n++
		return n < limit
	})
	return sb.String()
}

// oracleC05: (a) loaded instances answer every query identically to the fresh
// one; (b) on the fresh instance: byte stability.
func oracleC05(w *h.Worker, b *h.Built, inst string, st *trie.SlimTrie, u *inputSpec) *h.Viol {
	typed := b.Enc == "I32" && b.Decoded != nil
	if inst == h.InstFresh {
		// (b) byte stability
		buf, err := st.Marshal()
		if err != nil {
			return &h.Viol{Sig: "marshal-error", Msg: "Marshal failed: " + err.Error()}
		}
		w.Trans++
		// a stream belongs to its caller: serialising ANOTHER trie (and asking for
		// sizes) while the caller still holds it must not change it
		{
			orig := append([]byte{}, buf...)
			other, perr := h.Build(&h.Case{Keys: bystanderKeys, ValIDs: []int{3, 2, 2, 1}, Enc: "I32", Opt: h.Opt4{D: 0, I: 0, L: 0, C: 1}})
			if perr == nil && other.Err == nil {
				other.ST.Marshal()
				proto.Marshal(other.ST)
				proto.Size(other.ST)
			}
			proto.Size(st)
			if !bytes.Equal(buf, orig) {
				return &h.Viol{Sig: "marshal-output-not-stable", Msg: fmt.Sprintf("the bytes Marshal returned changed while the caller held them and another trie was serialised (first difference at byte %d of %d)", firstDiff(buf, orig), len(orig))}
			}
		}
		rebuilds := 3
		if len(b.Keys) < 9 {
			rebuilds = 1 // too small for a short table: no frequency ties to break
		}
		for i := 0; i < rebuilds; i++ {
			b2, p := h.Build(b.Case)
			if p != nil || b2.Err != nil {
				return &h.Viol{Sig: "rebuild-differs", Msg: fmt.Sprintf("rebuilding the same input failed: %v %v", p, b2.Err)}
			}
			buf2, _ := b2.ST.Marshal()
			w.Trans++
			if !bytes.Equal(buf, buf2) {
				return &h.Viol{Sig: "marshal-not-deterministic", Msg: fmt.Sprintf("building twice from equal input gives different bytes (lengths %d, %d, first difference at %d)", len(buf), len(buf2), firstDiff(buf, buf2))}
			}
		}
		pm, err := proto.Marshal(st)
		if err != nil {
			return &h.Viol{Sig: "marshal-error", Msg: "proto.Marshal failed: " + err.Error()}
		}
		sz := proto.Size(st)
		w.Trans += 2
		if len(pm) != len(buf) || sz != len(buf) || !bytes.Equal(pm, buf) {
			return &h.Viol{Sig: "marshal-size", Msg: fmt.Sprintf("len(Marshal)=%d, proto.Size=%d, len(proto.Marshal)=%d (bytes equal: %v)", len(buf), sz, len(pm), bytes.Equal(pm, buf))}
		}
		st2, _, err := h.LoadUnmarshal(st, b.Encoder)
		if err != nil {
			return &h.Viol{Sig: "load-error", Msg: "Unmarshal(Marshal()) failed: " + err.Error()}
		}
		// loaded from a buffer in which other bytes follow the stream: what the
		// instance marshals is its own stream, not the caller's buffer
		if st4, err4 := trie.NewSlimTrie(b.Encoder, nil, nil); err4 == nil {
			long := append(append([]byte{}, buf...), bytes.Repeat([]byte{0x00, 0xa5}, 37)...)
			if err := st4.Unmarshal(long); err == nil {
				if buf4, _ := st4.Marshal(); !bytes.Equal(buf4, buf) || proto.Size(st4) != len(buf) {
					return &h.Viol{Sig: "remarshal-differs", Msg: fmt.Sprintf("an instance loaded from a buffer in which 74 other bytes follow the stream marshals %d bytes (proto.Size %d), its stream has %d", len(buf4), proto.Size(st4), len(buf))}
				}
			}
		}
		buf3, _ := st2.Marshal()
		w.Trans++
		if !bytes.Equal(buf, buf3) {
			return &h.Viol{Sig: "remarshal-differs", Msg: fmt.Sprintf("Marshal(Unmarshal(Marshal(t))) differs from Marshal(t) (lengths %d, %d, first difference at %d)", len(buf), len(buf3), firstDiff(buf, buf3))}
		}
		// the marshaled bytes start with the current version header
		return nil
	}
	// (a) answer preservation against the fresh instance
	fresh := b.ST
	qs := append(append([]string{}, u.qs...), b.Keys...)
	for _, q := range qs {
		same := true
		if p := h.Safely(func() { same = sameAnswers(fresh, st, q, typed) }); p != nil {
			return &h.Viol{Sig: "lookup-panic", Msg: fmt.Sprintf("lookup of %s panicked: %v", briefQ(q), p)}
		}
		w.Trans += 4
		if !same {
			return &h.Viol{Sig: "answers-differ-after-load", Msg: fmt.Sprintf("query %s: fresh answers %s, %s instance answers %s", briefQ(q), answers(fresh, q, typed), inst, answers(st, q, typed))}
		}
	}
	if b.Opt.IsComplete() {
		starts := u.qs
		if len(starts) > 400 {
			starts = starts[:400]
		}
		for _, s := range append([]string{""}, starts...) {
			var s1, s2 string
			if p := h.Safely(func() {
				s1 = scanAll(fresh, s, true, true, len(b.Keys)+2)
				s2 = scanAll(st, s, true, true, len(b.Keys)+2)
			}); p != nil {
				return &h.Viol{Sig: "scan-panic", Msg: fmt.Sprintf("scan from %s panicked: %v", briefQ(s), p)}
			}
			w.Trans += 2
			if s1 != s2 {
				return &h.Viol{Sig: "scan-differs-after-load", Msg: fmt.Sprintf("scan from %s: fresh %s, %s instance %s", briefQ(s), s1, inst, s2)}
			}
		}
	}
	if !reflect.DeepEqual(fresh.Stat(), st.Stat()) {
		return &h.Viol{Sig: "stat-differs-after-load", Msg: fmt.Sprintf("Stat differs: fresh %+v, %s %+v", *fresh.Stat(), inst, *st.Stat())}
	}
	if len(b.Keys) <= 64 {
		var g1, g2 string
		if p := h.Safely(func() { g1 = fresh.String(); g2 = st.String() }); p == nil && g1 != g2 {
			return &h.Viol{Sig: "string-differs-after-load", Msg: "String() differs between the fresh and the " + inst + " instance"}
		}
	}
	w.Trans += 2
	return nil
}

func firstDiff(a, b []byte) int {
	for i := 0; i < len(a) && i < len(b); i++ {
		if a[i] != b[i] {
			return i
		}
	}
	if len(a) < len(b) {
		return len(a)
	}
	return len(b)
}

// ---------- (c) histories ----------

type histStream struct {
	Name     string
	Bytes    []byte
	Complete bool
	Valid    bool
}

// histAlphabet builds the stream alphabet of the history exploration.
func histAlphabet(sp *spaceCtx) []histStream {
	keysA := []string{"", "\x00", "\x0f\xf0", "\xf0", "\xff\xff"}
	keysB := []string{"\x00\x00", "\x00\xff", "\x7f", "\x80\x01", "\xff"}
	mk := func(keys []string, ids []int, o h.Opt4) []byte {
		c := &h.Case{Keys: keys, ValIDs: ids, Enc: "I32", Opt: o}
		b, p := h.Build(c)
		if p != nil || b.Err != nil {
			panic(fmt.Sprint("alphabet build failed: ", p, b.Err))
		}
		buf, _ := b.ST.Marshal()
		return append([]byte{}, buf...)
	}
	ids := func(n int) []int {
		r := make([]int, n)
		for i := range r {
			r[i] = i + 1
		}
		return r
	}
	var al []histStream
	al = append(al, histStream{"empty", mk(nil, nil, h.Opt4{D: 1}), false, true})
	al = append(al, histStream{"default-A", mk(keysA, ids(5), h.Opt4{D: 1}), false, true})
	idsB := []int{11, 12, 13, 14, 15} // other values than the A streams at the same leaf positions
	al = append(al, histStream{"complete-B", mk(keysB, idsB, h.Opt4{D: 1, C: 1}), true, true})
	al = append(al, histStream{"complete-A-novalues", mk(keysA, nil, h.Opt4{D: 1, C: 1}), true, true})
	al = append(al, histStream{"inner-A", mk(keysA, ids(5), h.Opt4{D: 1, I: 1}), false, true})
	al = append(al, histStream{"leaf-B", mk(keysB, idsB, h.Opt4{D: 1, L: 1}), false, true})
	al = append(al, histStream{"dedup-A", mk(keysA, []int{1, 1, 2, 2, 2}, h.Opt4{D: 1, C: 1}), true, true})
	// one with short nodes and big nodes
	{
		sc := h.ScaffoldBigRoot(sp.sigma, "in").Apply(keysB[:3])
		filler := shortFiller(sp.sigma, 2, true)
		keys := uniq(sortedCopy(append(append([]string{}, sc.Keys...), filler...)))
		al = append(al, histStream{"complete-big-short", mk(keys, ids(len(keys)), h.Opt4{D: 1, C: 1}), true, true})
	}
	vals := legacyVals(len(keysA))
	old, _ := legacy.WriteOld(keysA, vals, legacy.FlavourOf("0.5.9"))
	al = append(al, histStream{"legacy-0.5.9-A", old, false, true})
	old3, _ := legacy.WriteOld(keysB, vals, legacy.FlavourOf("0.5.3"))
	al = append(al, histStream{"legacy-0.5.3-B", old3, false, true})
	bv := make([][]byte, len(keysB))
	for i := range bv {
		bv[i] = le32b(vals[i])
	}
	al = append(al, histStream{"legacy-0.5.10-innpref-B", legacy.Flavours0510["innpref"].Stream("0.5.10", keysB, bv), false, true})
	al = append(al, histStream{"legacy-0.5.10-allpref-A", legacy.Flavours0510["allpref"].Stream("0.5.10", keysA, bv), true, true})
	// rejected loads
	good := al[2].Bytes
	al = append(al, histStream{"truncated", append([]byte{}, good[:len(good)-3]...), false, false})
	bad := append([]byte{}, good...)
	copy(bad[:16], "0.6.0\x00\x00\x00\x00\x00\x00\x00\x00\x00\x00\x00")
	al = append(al, histStream{"bad-version", bad, false, false})
	return al
}

type histOp struct {
	Kind   string `json:"kind"` // unmarshal | proto | reset | observe | probe
	Stream int    `json:"stream"`
	// probe: ONE read call (API 0 Get, 1 RangeGet, 2 Search, 3 GetI32) of one query
	QHex string `json:"q_hex,omitempty"`
	API  int    `json:"api,omitempty"`
}

var probeAPIs = []string{"Get", "RangeGet", "Search", "GetI32"}

// probe performs the single read of a probe op and renders its result.
func probe(st *trie.SlimTrie, op histOp) string {
	qb, _ := hex.DecodeString(op.QHex)
	q := string(qb)
	switch op.API {
	case 0:
		v, f := st.Get(q)
		return fmt.Sprintf("%v/%v", v, f)
	case 1:
		v, f := st.RangeGet(q)
		return fmt.Sprintf("%v/%v", v, f)
	case 2:
		l, e, r := st.Search(q)
		return fmt.Sprintf("%v/%v/%v", l, e, r)
	default:
		if v, f := st.Get(q); !f || v == nil {
			return "n/a" // the typed getter is defined for tries that store 4-byte values
		}
		x, f := st.GetI32(q)
		return fmt.Sprintf("%d/%v", x, f)
	}
}

func (o histOp) String(al []histStream) string {
	if o.Kind == "reset" {
		return "Reset"
	}
	if o.Kind == "observe" {
		return "ReadEverything"
	}
	if o.Kind == "probe" {
		return probeAPIs[o.API] + "(" + o.QHex + ")"
	}
	return o.Kind + "(" + al[o.Stream].Name + ")"
}

// observation of an instance: answers to qs, scans, Stat, String, Marshal bytes.
func observe(st *trie.SlimTrie, qs []string, complete bool, withStat bool) (string, interface{}) {
	var sb strings.Builder
	p := h.Safely(func() {
		for _, q := range qs {
			sb.WriteString(answers(st, q, false))
			sb.WriteByte(';')
		}
		// the typed getter reads the leaf bytes directly (all history streams
		// carry 4-byte values or none)
		for i, q := range qs {
			if i%4 == 0 {
				if id := st.GetID(q); id >= 0 {
					if _, has := st.Get(q); has {
						func() {
							defer func() {
								if r := recover(); r != nil {
									fmt.Fprintf(&sb, "GetI32(%x) panics;", q)
								}
							}()
							if v, _ := st.Get(q); v != nil {
								x, f := st.GetI32(q)
								fmt.Fprintf(&sb, "%d/%v;", x, f)
							}
						}()
					}
				}
			}
		}
		if complete {
			for _, s := range []string{"", "\x00", "\x0f", "\x7f", "\x80", "\xff"} {
				sb.WriteString(scanAll(st, s, true, true, 1000))
				sb.WriteString(scanAll(st, s, false, false, 1000))
				sb.WriteByte(';')
			}
		}
		if withStat {
			fmt.Fprintf(&sb, "%+v;", *st.Stat())
			sb.WriteString(st.String())
			buf, err := st.Marshal()
			fmt.Fprintf(&sb, ";%x;%v", buf, err)
		}
	})
	return sb.String(), p
}

func applyOp(st *trie.SlimTrie, op histOp, al []histStream) (err error, p interface{}) {
	p = h.Safely(func() {
		switch op.Kind {
		case "reset":
			st.Reset()
		case "observe":
			// every read API once (lookups, scans, Stat, String, Marshal, proto.Size):
			// a read must not leave anything behind that survives the next load
			st.Get("\x00")
			st.Search("\x7f")
			st.RangeGet("\xff")
			for _, q := range []string{"", "\x00", "\x00\x00", "\x0f\xf0", "\x7f", "\xf0", "\xff", "\xff\xff"} {
				if v, found := st.Get(q); found && v != nil {
					st.GetI32(q)
				}
			}
			if st.GetID("") >= -1 {
				func() {
					defer func() { recover() }() // scans refuse incomplete tries
					st.ScanFrom("", true, true, func(k, v []byte) bool { return true })
				}()
			}
			st.Stat()
			_ = st.String()
			st.Marshal()
			proto.Size(st)
		case "probe":
			probe(st, op)
		case "unmarshal":
			err = st.Unmarshal(append([]byte{}, al[op.Stream].Bytes...))
		case "proto":
			err = proto.Unmarshal(append([]byte{}, al[op.Stream].Bytes...), st)
		}
	})
	return
}

type c05HistCase struct {
	Start string   `json:"start"` // new | built
	Ops   []histOp `json:"ops"`
	Names []string `json:"op_names"`
	Seed  int64    `json:"seed"`
}

func startInstance(kind string) *trie.SlimTrie {
	if kind == "built" {
		st, err := trie.NewSlimTrie(encode.I32{}, []string{"\x00", "\x10\x01", "\x10\x02", "\xfe"}, []int32{9, 8, 7, 6}, trie.Opt{Complete: trie.Bool(true)})
		if err != nil {
			panic(err)
		}
		return st
	}
	st, err := trie.NewSlimTrie(encode.I32{}, nil, nil)
	if err != nil {
		panic(err)
	}
	return st
}

// evalHist runs one history and compares with the reference instance.
func evalHist(w *h.Worker, al []histStream, refObs []string, refDig []uint64, emptyObs string, qs []string, start string, ops []histOp) *h.Viol {
	st := startInstance(start)
	lastDefining := -1 // index of the stream that defines the state, -2 = reset, -1 = start state
	lastRejected := false
	for oi, op := range ops {
		if op.Kind == "probe" && oi == len(ops)-1 && lastDefining >= 0 && !lastRejected {
			// a history that ends with a single read: this read is the FIRST one after
			// the last load and must answer like the same read on a fresh instance
			// that only loaded that stream
			var got, want string
			if p := h.Safely(func() { got = probe(st, op) }); p != nil {
				return &h.Viol{Sig: "history-panic", Msg: fmt.Sprintf("%s panicked: %v", op.String(al), p)}
			}
			ref := startInstance("new")
			if e := ref.Unmarshal(append([]byte{}, al[lastDefining].Bytes...)); e != nil {
				return nil
			}
			if p := h.Safely(func() { want = probe(ref, op) }); p != nil {
				return nil // a read that panics on a fresh instance is not a history matter
			}
			w.Trans++
			if got != want {
				return &h.Viol{Sig: "history-residue", Msg: fmt.Sprintf("first read after the last load: %s = %s, a fresh instance that only loaded the last stream answers %s", op.String(al), got, want)}
			}
			continue
		}
		err, p := applyOp(st, op, al)
		w.Trans++
		if p != nil {
			return &h.Viol{Sig: "history-panic", Msg: fmt.Sprintf("%s panicked: %v", op.String(al), p)}
		}
		switch {
		case op.Kind == "observe" || op.Kind == "probe":
			// reads define nothing
		case op.Kind == "reset":
			lastDefining, lastRejected = -2, false
		case al[op.Stream].Valid:
			if err != nil {
				return &h.Viol{Sig: "history-load-error", Msg: fmt.Sprintf("%s failed: %v", op.String(al), err)}
			}
			lastDefining, lastRejected = op.Stream, false
		default:
			if err == nil {
				return &h.Viol{Sig: "history-bad-load-accepted", Msg: fmt.Sprintf("%s was accepted", op.String(al))}
			}
			lastRejected = true
		}
	}
	if lastRejected || lastDefining == -1 {
		// the state after a rejected load is decided by C07
		w.DontCare++
		return nil
	}
	var want string
	complete := false
	if lastDefining == -2 {
		want = emptyObs
	} else {
		want = refObs[lastDefining]
		complete = al[lastDefining].Complete
	}
	got, p := observe(st, qs, complete, true)
	w.Trans += int64(len(qs))*4 + 3
	if p != nil {
		return &h.Viol{Sig: "history-observe-panic", Msg: fmt.Sprintf("observing the instance panicked: %v", p)}
	}
	if got != want {
		return &h.Viol{Sig: "history-residue", Msg: fmt.Sprintf("after the history the instance does not answer like a fresh instance that only loaded the last stream (first difference at byte %d of the observation)", firstDiff([]byte(got), []byte(want)))}
	}
	if lastDefining >= 0 {
		if dg := h.Digest(st); dg != refDig[lastDefining] {
			// not observable: logged, not raised (the property is about answers)
			w.Feature("digest_differs_without_observable_difference")
		}
	}
	w.State(h.Hash64([]byte(got)), lastDefining >= 0)
	return nil
}

func histRefs(al []histStream, qs []string) (refObs []string, refDig []uint64, emptyObs string, err error) {
	for _, s := range al {
		if !s.Valid {
			refObs = append(refObs, "")
			refDig = append(refDig, 0)
			continue
		}
		st := startInstance("new")
		if e := st.Unmarshal(append([]byte{}, s.Bytes...)); e != nil {
			return nil, nil, "", fmt.Errorf("reference load of %s failed: %v", s.Name, e)
		}
		o, p := observe(st, qs, s.Complete, true)
		if p != nil {
			return nil, nil, "", fmt.Errorf("reference observation of %s panicked: %v", s.Name, p)
		}
		refObs = append(refObs, o)
		refDig = append(refDig, h.Digest(st))
	}
	st := startInstance("new")
	emptyObs, _ = observe(st, qs, false, true)
	return
}

func runC05(r *h.Run) {
	thorough := r.Tier == "thorough"
	p := defaultProfile()
	p.quickIDk, p.quickScafK = 4, 2
	if !thorough {
		drop := map[string]bool{"lift1": true, "bigroot-lo": true, "bigroot-hi": true, "shift2": true, "shift5": true, "shift11": true}
		p.scaffoldFilter = func(n string) bool { return !drop[n] }
	}
	r.Rule = "(a) for every trie of the C01 space (all 16 option combinations, encoders I32/String16/VarEnc, run patterns, nil values) and every query of Q: Get, GetID, RangeGet, Search, GetI32 (where applicable), scans from every start (complete modes), Stat and String are identical on the fresh, the Unmarshal-loaded and the proto-loaded instance (result-to-result, false positives included); (b) on every fresh trie: the same input built 4 times gives identical bytes, len(Marshal) = proto.Size = len(proto.Marshal), Marshal(Unmarshal(Marshal(t))) = Marshal(t) (short-table scaffolds with tied bitmap frequencies included); (a'/b') the same for instances loaded from every historical layout (K(U21,2), scaffolds, sweep offsets): their Marshal output loads through both load forms, answers identically (lookups, scans, Stat, String) and re-marshals to the same bytes; (c) explicit-state exploration of load/reset histories: every sequence of length <= 3 over {Unmarshal(s), proto.Unmarshal(s)} x 14 streams, Reset and ReadEverything (every read API once, incl. Marshal and proto.Size, so that cached read state is exposed to the next load) (empty; default, complete, complete without values, inner-only, leaf-only, de-duplicated small tries; one with 257-bit and short nodes; legacy 0.5.3, 0.5.9, 0.5.10-innpref, 0.5.10-allpref; a truncated and a bad-version stream) and Reset, from a never-used and from a built instance; plus every history [load s1, ONE read, load s2, ONE read] over the valid streams x both load forms x 8 queries x {Get, RangeGet, Search, GetI32}, whose last read is the first read after the reload; differential oracle: the observation vector (answers to Q, scans, Stat, String, Marshal bytes) equals that of a fresh instance that only loaded the last stream, or the empty observation after Reset. (d) build histories: every sequence of 2..3 builds over 11 inputs (tiny / small / short-table tries in filter, default and complete mode, the empty list, refused unsorted lists incl. one refused late, refused over-long runs at the root and deep in the trie, the same deep list accepted with InnerPrefix), run on one OS thread with the collector off: the last build's outcome (error class or marshaled bytes) equals the outcome of the same build run first. (e) option-cell histories: the caller overwrites Booleans it owns (obtained from trie.Bool, or the cells of an Opt after its build returned) in every prefix of 1..2 such steps, then builds with each of the 81 option forms made afresh from trie.Bool: the outcome equals that of the same build run first. A state is a distinct (marshaled bytes, options, encoder) resp. a distinct observation vector"
	r.Assumptions = append([]string{"the state after a rejected load is decided by C07, not here", "a deep-digest difference without an observable difference is logged, not raised"}, commonAssumptions...)
	// the history explorations are cheap and decide what no other check decides:
	// they run first, the shared trie enumeration (a)+(b) last
	// (d) build histories
	runC05BuildHistories(r)
	// (e) option-cell histories
	runC05OptHistories(r)

	// (c) histories
	sp := newSpaceCtx(r.Seed)
	al := histAlphabet(sp)
	qs := sp.q2
	refObs, refDig, emptyObs, err := histRefs(al, qs)
	if err != nil {
		// a reference load that fails is a C06/C01 matter; here it blocks the exploration
		r.Infra(err)
		return
	}
	var ops []histOp
	for i := range al {
		ops = append(ops, histOp{Kind: "unmarshal", Stream: i}, histOp{Kind: "proto", Stream: i})
	}
	ops = append(ops, histOp{Kind: "reset"}, histOp{Kind: "observe"})
	depth := 3
	r.Bounds["history_ops"] = len(ops)
	r.Bounds["history_depth"] = depth
	var snames []string
	for _, s := range al {
		snames = append(snames, s.Name)
	}
	r.Bounds["history_streams"] = snames
	type hu struct {
		start string
		ops   []histOp
	}
	r.Phase("histories", func(emit func(u interface{}) bool) {
		for _, start := range []string{"new", "built"} {
			var rec func(cur []histOp) bool
			rec = func(cur []histOp) bool {
				if len(cur) > 0 {
					if !emit(hu{start, append([]histOp{}, cur...)}) {
						return false
					}
				}
				if len(cur) == depth {
					return true
				}
				for _, o := range ops {
					if !rec(append(cur, o)) {
						return false
					}
				}
				return true
			}
			if !rec(nil) {
				return
			}
		}
		// probe histories: [load s1, ONE read r1, load s2, ONE read r2] for every
		// pair of valid streams x both load forms x every pair of single reads: r2
		// is the first read after the reload (residue that only the next read of
		// the same kind or leaf position sees), from a never-used instance
		var loads, probes []histOp
		for i := range al {
			if al[i].Valid && al[i].Name != "complete-big-short" {
				loads = append(loads, histOp{Kind: "unmarshal", Stream: i}, histOp{Kind: "proto", Stream: i})
			}
		}
		for _, q := range []string{"", "\x00", "\x00\x00", "\x0f\xf0", "\x7f", "\xf0", "\xff", "\xff\xff"} {
			for api := range probeAPIs {
				probes = append(probes, histOp{Kind: "probe", QHex: hex.EncodeToString([]byte(q)), API: api})
			}
		}
		for _, l1 := range loads {
			for _, r1 := range probes {
				for _, l2 := range loads {
					if !thorough && l1.Kind != l2.Kind && l1.Stream%2 == 0 {
						continue // quick: mixed load forms for every second first stream
					}
					for _, r2 := range probes {
						if !emit(hu{"new", []histOp{l1, r1, l2, r2}}) {
							return
						}
					}
				}
			}
		}
	}, func(w *h.Worker, x interface{}) {
		u := x.(hu)
		w.Begin(func() string { return fmt.Sprintf("C05 history %v", u.ops) })
		w.Evals++
		w.Tick()
		if v := evalHist(w, al, refObs, refDig, emptyObs, qs, u.start, u.ops); v != nil {
			var names []string
			for _, o := range u.ops {
				names = append(names, o.String(al))
			}
			v.Msg += fmt.Sprintf(" | start=%s history=%v", u.start, names)
			v.Kind, v.Case, v.Unit = "c05hist", c05HistCase{Start: u.start, Ops: u.ops, Names: names, Seed: r.Seed}, w.Unit()
			w.Report(*v)
			return
		}
		if len(u.ops) >= 3 {
			var names []string
			for _, o := range u.ops {
				names = append(names, o.String(al))
			}
			w.Sample(map[string]interface{}{"start": u.start, "history": names})
		}
	})

	runTriePass(r, buildPhases(r, p), oracleC05, nil)

	// (a')+(b') on tries loaded from the historical layouts: what such an instance
	// marshals loads again, answers identically and re-marshals to the same bytes
	legacyLoadedPhase(r, "C05", 2, func(w *h.Worker, l *legacyLayout, b *h.Built, u *inputSpec, st *trie.SlimTrie) *h.Viol {
		m1, err := st.Marshal()
		if err != nil {
			return &h.Viol{Sig: "marshal-error", Msg: "Marshal of a legacy-loaded instance failed: " + err.Error()}
		}
		if pm, err := proto.Marshal(st); err != nil || !bytes.Equal(pm, m1) || proto.Size(st) != len(m1) {
			return &h.Viol{Sig: "marshal-size", Msg: fmt.Sprintf("legacy-loaded instance: len(Marshal)=%d, proto.Size=%d, proto.Marshal equal=%v err=%v", len(m1), proto.Size(st), bytes.Equal(pm, m1), err)}
		}
		for _, viaProto := range []bool{false, true} {
			st2, err, p := loadLegacy(m1, viaProto)
			w.Trans++
			if err != nil || p != nil {
				return &h.Viol{Sig: "load-error", Msg: fmt.Sprintf("the bytes a legacy-loaded instance marshals do not load: %v %v", err, p)}
			}
			if v := oracleC05(w, b, "re-marshaled", st2, u); v != nil {
				return v
			}
			m2, _ := st2.Marshal()
			if !bytes.Equal(m1, m2) {
				return &h.Viol{Sig: "remarshal-differs", Msg: fmt.Sprintf("Marshal(Unmarshal(Marshal(t))) differs from Marshal(t) for a legacy-loaded t (lengths %d, %d, first difference at %d)", len(m1), len(m2), firstDiff(m1, m2))}
			}
		}
		return nil
	})
}

// ---------- (d) build histories ----------

// buildInput is one NewSlimTrie call of the build-history alphabet.
type buildInput struct {
	Name string
	Keys []string
	Vals []int32 // nil => no values
	Opt  h.Opt4
}

func buildAlphabet(sp *spaceCtx) []buildInput {
	long := strings.Repeat("\x6b", 33000)
	var deep []string
	for i := 0; i < 60; i++ {
		deep = append(deep, string([]byte{0x21 + byte(i%6)*0x11, byte(i / 6), 0x15}), string([]byte{0x21 + byte(i%6)*0x11, byte(i / 6), 0x25}))
	}
	// the over-long run hangs below one of the deepest filler keys, so the build
	// is refused late in its breadth-first walk, after every other node was seen
	deep = append(deep, deep[len(deep)-1]+"zz"+long+"\x10", deep[len(deep)-1]+"zz"+long+"\x20")
	deep = uniq(sortedCopy(deep))
	filler := shortFiller(sp.sigma, 2, true)
	seq := func(n int) []int32 {
		r := make([]int32, n)
		for i := range r {
			r[i] = int32(i/2 + 1)
		}
		return r
	}
	small := []string{"", "\x00", "\x0f\xf0", "\xf0", "\xff\xff"}
	al := []buildInput{
		{"tiny-filter", []string{"\x10", "\x10\x01", "\x20", "\xf0\xff"}, nil, h.Opt4{D: 1}},
		{"small-default", small, seq(5), h.Opt4{D: 1}},
		{"small-complete", small, seq(5), h.Opt4{D: 1, C: 1}},
		{"short-table", filler, nil, h.Opt4{D: 1}},
		{"short-table-complete", filler, seq(len(filler)), h.Opt4{D: 0, C: 1}},
		{"unsorted(refused)", []string{"b", "a"}, nil, h.Opt4{D: 1}},
		{"unsorted-late(refused)", append(append([]string{}, filler...), filler[0]), nil, h.Opt4{D: 1}},
		{"long-run-at-root(refused)", []string{long + "\x10", long + "\x20"}, nil, h.Opt4{D: 1}},
		{"long-run-deep(refused)", deep, nil, h.Opt4{D: 1}},
		{"long-run-deep-innerprefix(accepted)", deep, nil, h.Opt4{D: 1, I: 1}},
		{"empty", nil, nil, h.Opt4{D: 1}},
	}
	return al
}

// runBuild executes one build and renders its outcome (error class or marshaled bytes).
func runBuild(b buildInput) string {
	var vals interface{}
	if b.Vals != nil {
		vals = b.Vals
	}
	var out string
	p := h.Safely(func() {
		st, err := trie.NewSlimTrie(encode.I32{}, append([]string{}, b.Keys...), vals, b.Opt.ToOpt())
		if err != nil {
			out = "error"
			if st != nil {
				out += "+trie"
			}
			return
		}
		buf, merr := st.Marshal()
		out = fmt.Sprintf("ok:%x:%v", buf, merr)
	})
	if p != nil {
		return fmt.Sprintf("panic:%v", p)
	}
	return out
}

type c05BuildCase struct {
	Seq   []int    `json:"sequence"`
	Names []string `json:"names"`
	Seed  int64    `json:"seed"`
}

// evalBuildSeq runs a sequence of builds on one OS thread with the collector
// off (so that anything a build parks in a pool or a package variable is still
// there for the next one) and compares the last outcome with the outcome of the
// same build run first.
func evalBuildSeq(w *h.Worker, al []buildInput, ref []string, seq []int) *h.Viol {
	var got string
	done := make(chan struct{})
	go func() {
		defer close(done)
		runtime.LockOSThread()
		defer runtime.UnlockOSThread()
		for i, bi := range seq {
			o := runBuild(al[bi])
			w.Trans++
			if i == len(seq)-1 {
				got = o
			}
		}
	}()
	<-done
	last := seq[len(seq)-1]
	if got != ref[last] {
		return &h.Viol{Sig: "build-depends-on-history", Msg: fmt.Sprintf("build %q gives a different outcome after the builds before it than when it runs first (lengths %d vs %d, first difference at %d)", al[last].Name, len(got), len(ref[last]), firstDiff([]byte(got), []byte(ref[last])))}
	}
	return nil
}

func replayC05Build(prop string, raw []byte) *h.Viol {
	var cj c05BuildCase
	if err := jsonUnmarshal(raw, &cj); err != nil {
		return &h.Viol{Msg: err.Error()}
	}
	al := buildAlphabet(newSpaceCtx(cj.Seed))
	ref := make([]string, len(al))
	for i := range al {
		ref[i] = runBuild(al[i])
	}
	old := debug.SetGCPercent(-1)
	defer debug.SetGCPercent(old)
	w := h.NewRun(prop, "quick", 0, "model_checking", 0).W0()
	for rep := 0; rep < 5; rep++ {
		if v := evalBuildSeq(w, al, ref, cj.Seq); v != nil {
			return v
		}
	}
	return nil
}

func runC05BuildHistories(r *h.Run) {
	sp := newSpaceCtx(r.Seed)
	al := buildAlphabet(sp)
	ref := make([]string, len(al))
	var names []string
	for i := range al {
		ref[i] = runBuild(al[i])
		names = append(names, al[i].Name+" => "+ref[i][:min(5, len(ref[i]))])
	}
	r.Bounds["build_history_alphabet"] = names
	depth := 3
	r.Bounds["build_history_depth"] = depth
	// the collector stays off during this phase: a sync.Pool is emptied by it
	old := debug.SetGCPercent(-1)
	defer debug.SetGCPercent(old)
	r.Phase("build-histories", func(emit func(u interface{}) bool) {
		var rec func(cur []int) bool
		rec = func(cur []int) bool {
			if len(cur) >= 2 {
				if !emit(append([]int{}, cur...)) {
					return false
				}
			}
			if len(cur) == depth {
				return true
			}
			for i := range al {
				if !rec(append(cur, i)) {
					return false
				}
			}
			return true
		}
		rec(nil)
	}, func(w *h.Worker, x interface{}) {
		seq := x.([]int)
		w.Begin(func() string { return fmt.Sprintf("C05 build history %v", seq) })
		w.Evals++
		w.Tick()
		w.StatesN++
		w.NontrivN++
		if v := evalBuildSeq(w, al, ref, seq); v != nil {
			var ns []string
			for _, i := range seq {
				ns = append(ns, al[i].Name)
			}
			v.Msg += fmt.Sprintf(" | build history %v", ns)
			v.Kind, v.Case, v.Unit = "c05build", c05BuildCase{Seq: seq, Names: ns, Seed: r.Seed}, w.Unit()
			w.Report(*v)
			return
		}
		if len(seq) == 3 && seq[0] == 8 {
			var ns []string
			for _, i := range seq {
				ns = append(ns, al[i].Name)
			}
			w.Sample(map[string]interface{}{"build_history": ns})
		}
	})
}

// ---------- (e) option-cell histories ----------

// The caller owns the Booleans its Opt points to, also those it got from
// trie.Bool: it may overwrite them once a build has returned.  No later build,
// whose options are made afresh, may depend on that.

type optHistOp struct {
	Kind string `json:"kind"` // "flip" (Bool(v), then write !v through it) | "build" (build with Opt, then flip its cells)
	V    bool   `json:"v,omitempty"`
	Opt  string `json:"opt,omitempty"`
}

type c05OptCase struct {
	Prefix []optHistOp `json:"prefix"`
	Final  string      `json:"final_opt"`
}

var optHistKeys = []string{"", "\x00", "\x0f\xf0", "\x0f\xf1", "\xf0", "\xff\xff"}
var optHistVals = []int32{1, 1, 2, 3, 3, 4}

// libOpt makes the Opt of o with cells obtained from trie.Bool.
func libOpt(o h.Opt4) (trie.Opt, []*bool) {
	var cells []*bool
	mk := func(v int8) *bool {
		if v < 0 {
			return nil
		}
		p := trie.Bool(v == 1)
		cells = append(cells, p)
		return p
	}
	return trie.Opt{DedupValue: mk(o.D), InnerPrefix: mk(o.I), LeafPrefix: mk(o.L), Complete: mk(o.C)}, cells
}

func optBuildOutcome(opt trie.Opt) string {
	var out string
	if p := h.Safely(func() {
		st, err := trie.NewSlimTrie(encode.I32{}, append([]string{}, optHistKeys...), append([]int32{}, optHistVals...), opt)
		if err != nil {
			out = "error"
			return
		}
		buf, merr := st.Marshal()
		out = fmt.Sprintf("ok:%x:%v", buf, merr)
	}); p != nil {
		return fmt.Sprintf("panic:%v", p)
	}
	return out
}

// evalOptHist runs prefix, then the final build, and undoes every write of the
// prefix afterwards (so that histories stay independent even on a library that
// shares option cells).
func evalOptHist(prefix []optHistOp, final h.Opt4, ref string) *h.Viol {
	type undo struct {
		p *bool
		v bool
	}
	var undos []undo
	defer func() {
		for i := len(undos) - 1; i >= 0; i-- {
			*undos[i].p = undos[i].v
		}
	}()
	for _, op := range prefix {
		switch op.Kind {
		case "flip":
			p := trie.Bool(op.V)
			undos = append(undos, undo{p, *p})
			*p = !op.V
		case "build":
			opt, cells := libOpt(h.ParseOpt4(op.Opt))
			optBuildOutcome(opt)
			for _, c := range cells {
				undos = append(undos, undo{c, *c})
				*c = !*c
			}
		}
	}
	opt, _ := libOpt(final)
	if got := optBuildOutcome(opt); got != ref {
		return &h.Viol{Sig: "build-depends-on-option-cells", Msg: fmt.Sprintf("a build with options %s (cells from trie.Bool) gives another outcome after the caller overwrote option cells it owns than when it runs first (lengths %d vs %d)", final.String(), len(got), len(ref))}
	}
	return nil
}

func optHistPrefixOps() []optHistOp {
	ops := []optHistOp{{Kind: "flip", V: true}, {Kind: "flip", V: false}}
	for _, o := range h.All16() {
		ops = append(ops, optHistOp{Kind: "build", Opt: o.String()})
	}
	ops = append(ops, optHistOp{Kind: "build", Opt: h.Opt4{D: -1, I: -1, L: -1, C: 1}.String()}, optHistOp{Kind: "build", Opt: h.Opt4{D: -1, I: -1, L: -1, C: -1}.String()})
	return ops
}

func runC05OptHistories(r *h.Run) {
	finals := h.All81()
	ref := make([]string, len(finals))
	for i, f := range finals {
		ref[i] = optBuildOutcome(f.ToOpt()) // cells owned by the harness, before any write
	}
	ops := optHistPrefixOps()
	r.Bounds["option_cell_histories"] = fmt.Sprintf("prefixes of 1..2 ops over %d ops (write through a pointer from trie.Bool(true/false); build with one of 18 option forms, then overwrite its cells) x 81 final option forms", len(ops))
	// ONE unit: the histories run one after the other, nothing else runs meanwhile
	r.Phase("option-cell-histories", func(emit func(u interface{}) bool) { emit(0) }, func(w *h.Worker, x interface{}) {
		w.Begin(func() string { return "C05 option-cell histories" })
		var prefixes [][]optHistOp
		for _, a := range ops {
			prefixes = append(prefixes, []optHistOp{a})
			for _, b := range ops {
				prefixes = append(prefixes, []optHistOp{a, b})
			}
		}
		for _, pre := range prefixes {
			for fi, f := range finals {
				w.Evals++
				w.Tick()
				w.StatesN++
				w.NontrivN++
				w.Trans += int64(len(pre)) + 1
				if v := evalOptHist(pre, f, ref[fi]); v != nil {
					v.Msg += fmt.Sprintf(" | prefix %+v", pre)
					v.Kind, v.Case, v.Unit = "c05opt", c05OptCase{Prefix: pre, Final: f.String()}, w.Unit()
					w.Report(*v)
					return
				}
			}
		}
		w.Sample(map[string]interface{}{"option_cell_histories": len(prefixes) * len(finals)})
	})
}

func replayC05Opt(prop string, raw []byte) *h.Viol {
	var cj c05OptCase
	if err := jsonUnmarshal(raw, &cj); err != nil {
		return &h.Viol{Msg: err.Error()}
	}
	f := h.ParseOpt4(cj.Final)
	return evalOptHist(cj.Prefix, f, optBuildOutcome(f.ToOpt()))
}

func replayC05Hist(prop string, raw []byte) *h.Viol {
	var cj c05HistCase
	if err := jsonUnmarshal(raw, &cj); err != nil {
		return &h.Viol{Msg: err.Error()}
	}
	sp := newSpaceCtx(cj.Seed)
	al := histAlphabet(sp)
	refObs, refDig, emptyObs, err := histRefs(al, sp.q2)
	if err != nil {
		return &h.Viol{Msg: err.Error()}
	}
	w := h.NewRun(prop, "quick", 0, "model_checking", 0).W0()
	return evalHist(w, al, refObs, refDig, emptyObs, sp.q2, cj.Start, cj.Ops)
}
