// Package checks contains the per-property decision procedures.
package checks

import (
	"time"

	"verif/internal/h"
)

// Check describes one registered property check.
type Check struct {
	ID             string
	Level          string
	Run            func(r *h.Run)
	QuickBudget    time.Duration
	ThoroughBudget time.Duration
}

// Registry lists all checks by property id.
var Registry = map[string]*Check{}

func register(c *Check) { Registry[c.ID] = c }

// Replayers re-execute one stored case without any explorer; they return the
// violation found (nil if the case passes now).
var Replayers = map[string]func(prop string, raw []byte) *h.Viol{}

func init() {
	register(&Check{ID: "C15", Level: "model_checking", Run: C15, QuickBudget: 200 * time.Second, ThoroughBudget: 15 * time.Minute})
}
