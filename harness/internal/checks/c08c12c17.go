package checks

import (
	"fmt"
	"github.com/golang/protobuf/proto"
	"reflect"
	"sort"
	"strings"
	"time"

	"github.com/openacid/errors"
	"github.com/openacid/slim/encode"
	"github.com/openacid/slim/index"
	"github.com/openacid/slim/trie"
	"github.com/openacid/testkeys"
	"verif/internal/h"
)

func init() {
	mc := "model_checking"
	register(&Check{ID: "C08", Level: mc, Run: runC08, QuickBudget: 400 * time.Second, ThoroughBudget: 40 * time.Minute})
	register(&Check{ID: "C12", Level: mc, Run: runC12, QuickBudget: 400 * time.Second, ThoroughBudget: 40 * time.Minute})
	register(&Check{ID: "C17", Level: mc, Run: runC17, QuickBudget: 400 * time.Second, ThoroughBudget: 40 * time.Minute})
	Replayers["c08"] = replayC08
	Replayers["c12"] = replayC12
	Replayers["c17"] = replayC17
}

// ---------- C08: construction is all-or-nothing ----------

type c08Case struct {
	KeysHex []string `json:"keys_hex,omitempty"`
	// compact form for very long keys: run-length family
	Run    *c08Run `json:"run,omitempty"`
	Opt    string  `json:"opt"`
	Values bool    `json:"values"`
}

type c08Run struct {
	R       int    `json:"run_bytes"`
	Ending  string `json:"ending"` // hi | lo
	Variant string `json:"variant"`
}

func (rn *c08Run) keys() []string {
	P := strings.Repeat("\x6b", rn.R)
	a, b := "\x10", "\x20"
	if rn.Ending == "lo" {
		a, b = "\x11", "\x12"
	}
	switch rn.Variant {
	case "root":
		return []string{P + a, P + b}
	case "inner":
		// the run hangs under a non-root node
		return []string{"\x01", "\x02" + P + a, "\x02" + P + b, "\x03"}
	case "tail3":
		return []string{P + a, P + b, P + b + "\xff"}
	case "fan12":
		// the run ends at a node with 12 distinct next bytes: a 257-bit node at the root
		var ks []string
		for i := 0; i < 12; i++ {
			c := byte(0x11 + 0x13*i)
			if rn.Ending == "lo" {
				c = byte(0x60 + i) // same high nibble: the run ends on a half byte for 17-bit nodes
			}
			ks = append(ks, P+string([]byte{c})+"x")
		}
		return ks
	case "fan12-under-big":
		// 257-bit root, the run hangs under its first label and ends at a second 257-bit node
		var ks []string
		for i := 0; i < 12; i++ {
			c := byte(0x11 + 0x13*i)
			if rn.Ending == "lo" {
				c = byte(0x60 + i)
			}
			ks = append(ks, "\x01"+P+string([]byte{c})+"x")
		}
		for i := 0; i < 12; i++ {
			ks = append(ks, string([]byte{byte(0x20 + 0x11*i)}))
		}
		sort.Strings(ks)
		return ks
	}
	panic("variant")
}

func stricAsc(keys []string) bool {
	for i := 0; i+1 < len(keys); i++ {
		if !(keys[i] < keys[i+1]) {
			return false
		}
	}
	return true
}

// evalC08 checks one build attempt. longInput: some key or shared run exceeds
// the documented 16 KiB, so rejection is allowed, silent loss is not.
func evalC08(w *h.Worker, keys []string, opt h.Opt4, withVals bool, longInput bool) *h.Viol {
	if withVals && len(keys) >= 2 && len(keys) <= 4 && !longInput {
		// short lists also with a value encoder that is an object (TypeEncoder over
		// a struct) and a variable-width one (String16)
		for kind := 1; kind <= 2; kind++ {
			c08EncKind(w, kind)
			v := evalC08v(w, keys, opt, true, false, 1)
			if v == nil {
				v = evalC08v(w, keys, opt, true, false, 2)
			}
			c08EncKind(w, 0)
			if v != nil {
				v.Msg += fmt.Sprintf(" [value encoder: %s]", []string{"I32", "TypeEncoder(struct)", "String16"}[kind])
				return v
			}
		}
	}
	if v := evalC08v(w, keys, opt, withVals, longInput, 1); v != nil || !withVals || len(keys) < 2 || len(keys) > 64 {
		return v
	}
	// equal neighbouring values (pairs, then all equal): a key that de-duplication
	// leaves out of the index is still part of the input whose order is checked
	if v := evalC08v(w, keys, opt, true, longInput, 2); v != nil {
		return v
	}
	return evalC08v(w, keys, opt, true, longInput, len(keys))
}

// evalC08v: values change every `run` keys.
func evalC08v(w *h.Worker, keys []string, opt h.Opt4, withVals bool, longInput bool, run int) *h.Viol {
	kind, _ := w.Scratch["c08enc"].(int)
	valOf := func(i int) interface{} {
		x := int32((i/run)*3 + 1)
		switch kind {
		case 1:
			return c08Rec{A: x * 0x01010101, B: uint16(x)}
		case 2:
			return strings.Repeat("v", int(x)%5) + fmt.Sprint(x)
		}
		return x
	}
	var enc encode.Encoder = encode.I32{}
	var vals interface{}
	if withVals {
		switch kind {
		case 1:
			te, terr := encode.NewTypeEncoder(c08Rec{})
			if terr != nil {
				panic(terr)
			}
			enc = te
			v := make([]c08Rec, len(keys))
			for i := range v {
				v[i] = valOf(i).(c08Rec)
			}
			vals = v
		case 2:
			enc = encode.String16{}
			v := make([]string, len(keys))
			for i := range v {
				v[i] = valOf(i).(string)
			}
			vals = v
		default:
			v := make([]int32, len(keys))
			for i := range v {
				v[i] = valOf(i).(int32)
			}
			vals = v
		}
	}
	var st *trie.SlimTrie
	var err error
	p := h.Safely(func() {
		st, err = trie.NewSlimTrie(enc, append([]string{}, keys...), vals, opt.ToOpt())
	})
	w.Trans++
	asc := stricAsc(keys)
	if p != nil {
		w.Outcome("panic")
		if longInput {
			// beyond the documented limits a refusal by panic is still "no trie": tolerated
			w.DontCare++
			return nil
		}
		return &h.Viol{Sig: "build-panic", Msg: fmt.Sprintf("NewSlimTrie panicked: %v", p)}
	}
	if !asc {
		if err == nil {
			w.Outcome("accepted-unsorted")
			return &h.Viol{Sig: "unsorted-accepted", Msg: fmt.Sprintf("a key list that is not strictly ascending was accepted (values change every %d keys)", run)}
		}
		w.Outcome("rejected-unsorted")
		if errors.Cause(err) != trie.ErrKeyOutOfOrder {
			return &h.Viol{Sig: "wrong-error", Msg: fmt.Sprintf("rejected with %v, want ErrKeyOutOfOrder", err)}
		}
		if st != nil {
			return &h.Viol{Sig: "error-with-trie", Msg: "an error was returned together with a non-nil trie"}
		}
		return nil
	}
	if err != nil {
		if st != nil {
			return &h.Viol{Sig: "error-with-trie", Msg: "an error was returned together with a non-nil trie"}
		}
		if longInput {
			w.Outcome("rejected-over-limit")
			w.DontCare++
			return nil
		}
		w.Outcome("rejected-valid")
		return &h.Viol{Sig: "valid-rejected", Msg: fmt.Sprintf("a strictly ascending list within the documented limits was rejected: %v", err)}
	}
	if st == nil {
		return &h.Viol{Sig: "nil-trie-nil-error", Msg: "NewSlimTrie returned (nil, nil)"}
	}
	w.Outcome("accepted-valid")
	// accepted => lookup guarantees for its own keys (values all distinct => all retained)
	var viol *h.Viol
	pp := h.Safely(func() {
		for i, k := range keys {
			if withVals && run > 1 {
				// with equal neighbouring values the guarantee for every input key is RangeGet's
				v, found := st.RangeGet(k)
				w.Trans++
				if !found || !reflect.DeepEqual(v, valOf(i)) {
					viol = &h.Viol{Sig: "accepted-but-key-lost", Msg: fmt.Sprintf("accepted input (values change every %d keys), but RangeGet on its own key #%d (%s) = (%v,%v), want %v", run, i, briefQ(k), v, found, valOf(i))}
					return
				}
				continue
			}
			v, found := st.Get(k)
			w.Trans++
			if !found {
				viol = &h.Viol{Sig: "accepted-but-key-lost", Msg: fmt.Sprintf("accepted input, but Get on its own key #%d (%s) reports not found", i, briefQ(k))}
				return
			}
			if withVals && !reflect.DeepEqual(v, valOf(i)) {
				viol = &h.Viol{Sig: "accepted-but-wrong-value", Msg: fmt.Sprintf("accepted input, but Get on key #%d (%s) = %v, want %v", i, briefQ(k), v, valOf(i))}
				return
			}
		}
	})
	if pp != nil {
		return &h.Viol{Sig: "accepted-but-get-panics", Msg: fmt.Sprintf("accepted input, but Get on its own keys panics: %v", pp)}
	}
	return viol
}

type c08Rec struct {
	A int32
	B uint16
}

func c08EncKind(w *h.Worker, kind int) { w.Scratch["c08enc"] = kind }

var c08Modes = []h.Opt4{{D: 1, I: 0, L: 0, C: 0}, {D: 1, I: 1, L: 0, C: 0}, {D: 1, I: 0, L: 1, C: 0}, {D: 1, I: 0, L: 0, C: 1}}

type c08Unit struct {
	kind string
	keys []string
	run  *c08Run
	desc string
}

func runC08(r *h.Run) {
	thorough := r.Tier == "thorough"
	sp := newSpaceCtx(r.Seed)
	r.Rule = "(i) every key SEQUENCE (ordered, repetitions allowed) of length <= 4 (quick) / 5 (thorough) over U(Sigma4,2) x 4 prefix modes x {nil, distinct values, values equal in pairs, all values equal}; (ii) valid lists of 8..200 keys with one injected order violation (duplicate, swapped neighbours, key followed by its own prefix, 0x7f/0x80 signed-order inversion) at EVERY index, and two violations at every pair of indexes (n <= 40); (ii-b) every list of the shared scaffold set (257-bit nodes, big-node pairs / nibble / alias shapes, short tables, shifts, sweep) over K(U21,2) and the large regular families (up to 20 000 keys, among them one with 201 257-bit nodes); (iii) lists whose single-branch run is r bytes long for every r of the tier's range, ending on a high- and a low-nibble difference, at the root, under an inner node, with a tail key, and ending at a 12-way fan-out (257-bit node) at the root and under a 257-bit root; oracle: strictly ascending <=> accepted, rejected => ErrKeyOutOfOrder and nil trie, accepted => every own key is found with its value; beyond the documented 16 KiB either outcome is allowed but never silent loss. Distinct by construction; non-trivial = at least 2 keys"
	r.Assumptions = []string{"documented key length limit = 16 KiB (README)", "a refusal (error or panic) of an over-limit input is tolerated, a lost key is not"}
	r.Bounds["alphabet"] = fmt.Sprintf("%x", sp.sigma)
	maxLen := 4
	if thorough {
		maxLen = 5
	}
	r.Bounds["sequence_length"] = maxLen
	U := sp.u2

	// (i) sequences
	r.Phase("sequences", func(emit func(u interface{}) bool) {
		var rec func(cur []int, l int) bool
		rec = func(cur []int, l int) bool {
			if len(cur) == l {
				if l <= 1 {
					return emit(c08Unit{kind: "seq", keys: h.Pick(U, cur)})
				}
				// batch on the last position to keep units coarse
				return true
			}
			if len(cur) == l-1 && l >= 2 {
				for last := 0; last < len(U); last++ {
					if !emit(c08Unit{kind: "seq", keys: h.Pick(U, append(append([]int{}, cur...), last))}) {
						return false
					}
				}
				return true
			}
			for i := 0; i < len(U); i++ {
				if !rec(append(cur, i), l) {
					return false
				}
			}
			return true
		}
		for l := 0; l <= maxLen; l++ {
			if !rec(nil, l) {
				return
			}
		}
	}, func(w *h.Worker, x interface{}) {
		u := x.(c08Unit)
		w.Begin(func() string {
			return fmt.Sprintf("C08 sequence keys=%v (all 4 prefix modes, nil / distinct / pairwise-equal / all-equal values)", hexKeys(u.keys))
		})
		for _, o := range c08Modes {
			for _, wv := range []bool{true, false} {
				w.Evals++
				w.Tick()
				w.StatesN++
				if len(u.keys) >= 2 {
					w.NontrivN++
				}
				if v := evalC08(w, u.keys, o, wv, false); v != nil {
					reportC08(w, v, u, o, wv)
					return
				}
			}
		}
		if len(u.keys) == 3 {
			w.Sample(map[string]interface{}{"kind": "sequence", "keys_hex": hexKeys(u.keys), "ascending": stricAsc(u.keys)})
		}
	})

	// (ii) injected violations
	bases := [][]string{}
	u3 := h.Universe(sp.sigma, 3)
	bases = append(bases, u3[:8], u3[10:50], u3)
	s12 := h.Universe([]byte{0x00, 0x13, 0x27, 0x3a, 0x4e, 0x62, 0x7f, 0x80, 0x99, 0xc4, 0xf0, 0xff}, 2)
	bases = append(bases, s12[:40], s12)
	if thorough {
		bases = append(bases, append([]string{}, testkeys.Load("300vl50")...)[:200])
	}
	r.Phase("injected-violations", func(emit func(u interface{}) bool) {
		for bi, base := range bases {
			n := len(base)
			for i := 0; i < n; i++ {
				for _, kind := range []string{"dup", "swap", "prefix-after", "signed"} {
					keys, ok := inject(base, i, kind)
					if !ok {
						continue
					}
					if !emit(c08Unit{kind: "inj", keys: keys, desc: fmt.Sprintf("base%d n=%d %s@%d", bi, n, kind, i)}) {
						return
					}
				}
			}
			if n <= 40 {
				for i := 0; i < n; i++ {
					for j := i + 2; j < n; j++ {
						for _, kinds := range [][2]string{{"dup", "swap"}, {"swap", "prefix-after"}, {"signed", "dup"}} {
							k1, ok1 := inject(base, j, kinds[1])
							if !ok1 {
								continue
							}
							k2, ok2 := inject(k1, i, kinds[0])
							if !ok2 {
								continue
							}
							if !emit(c08Unit{kind: "inj", keys: k2, desc: fmt.Sprintf("base%d n=%d %s@%d+%s@%d", bi, n, kinds[0], i, kinds[1], j)}) {
								return
							}
						}
					}
				}
			}
			// the untouched valid base list itself
			emit(c08Unit{kind: "inj", keys: base, desc: fmt.Sprintf("base%d valid", bi)})
		}
	}, func(w *h.Worker, x interface{}) {
		u := x.(c08Unit)
		w.Begin(func() string { return "C08 " + u.desc })
		for _, o := range c08Modes {
			w.Evals++
			w.Tick()
			w.StatesN++
			w.NontrivN++
			if v := evalC08(w, u.keys, o, true, false); v != nil {
				reportC08(w, v, u, o, true)
				return
			}
		}
		w.Sample(map[string]interface{}{"kind": "injected", "desc": u.desc, "ascending": stricAsc(u.keys)})
	})

	// (ii-b) the structurally special valid lists of the shared scaffold set
	// (257-bit nodes, short tables, aliasing and shift shapes): accepted, and
	// every own key found
	scs := scaffoldSet(sp, thorough, map[bool][]int{false: {2, 3}, true: {2, 3, 4, 5, 6}}[thorough], nil)
	r.Phase("scaffold-lists", func(emit func(u interface{}) bool) {
		it := h.NewSubsetIter(len(sp.u2), 0, 2)
		for idx := it.Next(); idx != nil; idx = it.Next() {
			for _, sc := range scs {
				s := sc.Apply(h.Pick(sp.u2, idx))
				if !emit(c08Unit{kind: "inj", keys: s.Keys, desc: "scaffold " + s.Name}) {
					return
				}
			}
		}
		for k := 0; k <= 70; k++ {
			s := h.ScaffoldFixed(fmt.Sprintf("sweep%d", k), h.SweepFiller(k), "\xff").Apply([]string{"", "\x0f", "\xf0\xff"})
			if !emit(c08Unit{kind: "inj", keys: s.Keys, desc: "scaffold " + s.Name}) {
				return
			}
		}
		// the large regular families (among them > 128 257-bit nodes)
		for _, f := range manyFamilies(sp, thorough) {
			if len(f.Keys) > 20000 {
				continue
			}
			if !emit(c08Unit{kind: "inj", keys: f.Keys, desc: "family " + f.Name}) {
				return
			}
		}
	}, func(w *h.Worker, x interface{}) {
		u := x.(c08Unit)
		w.Begin(func() string { return "C08 " + u.desc })
		for _, o := range c08Modes {
			for _, wv := range []bool{true, false} {
				w.Evals++
				w.Tick()
				w.StatesN++
				w.NontrivN++
				if v := evalC08(w, u.keys, o, wv, false); v != nil {
					reportC08(w, v, u, o, wv)
					return
				}
			}
		}
	})

	// (iii) run lengths
	var runs []int
	if thorough {
		for x := 0; x <= 33000; x++ {
			runs = append(runs, x)
		}
		runs = append(runs, 65534, 65535, 65536, 65537, 70000)
	} else {
		for x := 0; x <= 1024; x++ {
			runs = append(runs, x)
		}
		for _, c := range []int{16384, 32768, 65536} {
			lo, hi := c-8, c+8
			if c == 16384 {
				lo, hi = c-4, c+6
			}
			for x := lo; x <= hi; x++ {
				runs = append(runs, x)
			}
		}
	}
	r.Bounds["run_lengths"] = fmt.Sprintf("%d values, max %d bytes", len(runs), runs[len(runs)-1])
	r.Phase("run-lengths", func(emit func(u interface{}) bool) {
		for _, x := range runs {
			for _, e := range []string{"hi", "lo"} {
				for _, v := range []string{"root", "inner", "tail3", "fan12", "fan12-under-big"} {
					if (v != "root") && !(x <= 64 || x%257 == 0 || x >= 16380) {
						continue
					}
					if !emit(c08Unit{kind: "run", run: &c08Run{R: x, Ending: e, Variant: v}}) {
						return
					}
				}
			}
		}
	}, func(w *h.Worker, x interface{}) {
		u := x.(c08Unit)
		w.Begin(func() string { return fmt.Sprintf("C08 run %+v", *u.run) })
		keys := u.run.keys()
		long := maxKeyLen(keys) > 16384
		for _, o := range c08Modes {
			for _, wv := range []bool{true, false} {
				w.Evals++
				w.Tick()
				w.StatesN++
				w.NontrivN++
				if v := evalC08(w, keys, o, wv, long); v != nil {
					reportC08(w, v, u, o, wv)
					return
				}
			}
		}
		if long {
			w.Feature("runs_beyond_16KiB")
		} else {
			w.Feature("runs_within_16KiB")
		}
		if u.run.R == 1000 {
			w.Sample(map[string]interface{}{"kind": "run", "run": *u.run})
		}
	})
}

func maxKeyLen(keys []string) int {
	m := 0
	for _, k := range keys {
		if len(k) > m {
			m = len(k)
		}
	}
	return m
}

func hexKeys(keys []string) []string {
	var r []string
	for _, k := range keys {
		r = append(r, fmt.Sprintf("%x", k))
	}
	return r
}

func reportC08(w *h.Worker, v *h.Viol, u c08Unit, o h.Opt4, wv bool) {
	cj := c08Case{Opt: o.String(), Values: wv}
	if u.run != nil {
		cj.Run = u.run
		v.Msg += fmt.Sprintf(" | run=%+v", *u.run)
	} else {
		cj.KeysHex = hexKeys(u.keys)
		if len(u.keys) <= 8 {
			v.Msg += fmt.Sprintf(" | keys=%v", cj.KeysHex)
		} else {
			v.Msg += " | " + u.desc
		}
	}
	v.Msg += fmt.Sprintf(" opt=%s values=%v", o, wv)
	v.Kind, v.Case, v.Unit = "c08", cj, w.Unit()
	w.Report(*v)
}

func replayC08(prop string, raw []byte) *h.Viol {
	var cj c08Case
	if err := jsonUnmarshal(raw, &cj); err != nil {
		return &h.Viol{Msg: err.Error()}
	}
	var keys []string
	long := false
	if cj.Run != nil {
		keys = cj.Run.keys()
		long = maxKeyLen(keys) > 16384
	} else {
		for _, kh := range cj.KeysHex {
			var b []byte
			fmt.Sscanf(kh, "%x", &b)
			keys = append(keys, string(b))
		}
	}
	w := h.NewRun(prop, "quick", 0, "model_checking", 0).W0()
	return evalC08(w, keys, h.ParseOpt4(cj.Opt), cj.Values, long)
}

// inject makes one order violation at index i of a valid list.
func inject(base []string, i int, kind string) ([]string, bool) {
	n := len(base)
	keys := append([]string{}, base...)
	switch kind {
	case "dup":
		if i+1 >= n {
			return nil, false
		}
		keys[i+1] = keys[i]
	case "swap":
		if i+1 >= n {
			return nil, false
		}
		keys[i], keys[i+1] = keys[i+1], keys[i]
	case "prefix-after":
		// key followed by its own proper prefix
		if len(keys[i]) == 0 {
			return nil, false
		}
		out := append([]string{}, keys[:i+1]...)
		out = append(out, keys[i][:len(keys[i])-1])
		out = append(out, keys[i+1:]...)
		return out, true
	case "signed":
		// 0x80.. before 0x7f..: ascending for signed bytes, descending for Go strings
		out := append([]string{}, keys[:i]...)
		p := ""
		if i > 0 {
			p = keys[i-1]
		}
		a, b := p+"\x80", p+"\x7f"
		// keep the rest valid: drop everything that is not greater than a
		out = append(out, a, b)
		for _, k := range keys[i:] {
			if k > a {
				out = append(out, k)
			}
		}
		return out, true
	}
	return keys, true
}

// ---------- C12: SlimIndex + key-verifying reader is an exact map ----------

type recReader struct {
	byOffset map[int64][]int
	keys     []string
}

func (rr *recReader) Read(offset int64, key string) (string, bool) {
	for _, i := range rr.byOffset[offset] {
		if rr.keys[i] == key {
			return "rec:" + key, true
		}
	}
	return "", false
}

type c12Case struct {
	KeysHex    []string `json:"keys_hex"`
	Offsets    []int64  `json:"offsets"`
	Mode       string   `json:"mode"` // get | rangeget
	QueriesHex []string `json:"queries_hex,omitempty"`
	// reload history: the index was first built over PriorKeysHex, then refilled
	// in place with the index over KeysHex through Form
	PriorKeysHex []string `json:"prior_keys_hex,omitempty"`
	Form         string   `json:"form,omitempty"` // unmarshal | proto | assign
}

func evalC12(w *h.Worker, keys []string, offsets []int64, mode string, qs []string) *h.Viol {
	rr := &recReader{byOffset: map[int64][]int{}, keys: keys}
	items := make([]index.OffsetIndexItem, len(keys))
	present := map[string]bool{}
	for i, k := range keys {
		items[i] = index.OffsetIndexItem{Key: k, Offset: offsets[i]}
		rr.byOffset[offsets[i]] = append(rr.byOffset[offsets[i]], i)
		present[k] = true
	}
	var si *index.SlimIndex
	var err error
	if p := h.Safely(func() { si, err = index.NewSlimIndex(items, rr) }); p != nil || err != nil {
		return &h.Viol{Sig: "index-build-failed", Msg: fmt.Sprintf("NewSlimIndex failed on a sorted record set: %v %v", p, err)}
	}
	var viol *h.Viol
	if p := h.Safely(func() {
		// every indexed key first (whatever the query list holds), then the queries
		for i := 0; i < len(keys)+len(qs); i++ {
			var q string
			if i < len(keys) {
				q = keys[i]
			} else {
				q = qs[i-len(keys)]
				if present[q] {
					continue
				}
			}
			var v string
			var found bool
			if mode == "get" {
				v, found = si.Get(q)
			} else {
				// a caller may try the exact lookup first: whatever Get answers for a
				// key of a sparse index, the RangeGet that follows must be right
				si.Get(q)
				v, found = si.RangeGet(q)
				if v2, f2 := si.RangeGet(q); v2 != v || f2 != found {
					viol = &h.Viol{Sig: "index-rangeget-not-repeatable", Msg: fmt.Sprintf("RangeGet(%s) = (%q,%v), asked again at once = (%q,%v)", briefQ(q), v, found, v2, f2)}
					return
				}
			}
			w.Trans++
			if present[q] {
				if !found || v != "rec:"+q {
					viol = &h.Viol{Sig: "index-" + mode + "-misses-record", Msg: fmt.Sprintf("%s(%s) = (%q,%v), want the stored record", mode, briefQ(q), v, found)}
					return
				}
				w.Outcome("hit")
			} else {
				if found || v != "" {
					viol = &h.Viol{Sig: "index-" + mode + "-false-positive", Msg: fmt.Sprintf("%s(%s) = (%q,%v) for a string that is not indexed", mode, briefQ(q), v, found)}
					return
				}
				w.Outcome("miss")
			}
		}
	}); p != nil {
		return &h.Viol{Sig: "index-panic", Msg: fmt.Sprintf("%s panicked: %v", mode, p)}
	}
	return viol
}

// evalC12Reload: ONE SlimIndex value is built over prior, then refilled in place
// with the index over keys (si.Unmarshal of its marshaled bytes, proto.Unmarshal
// into it, or assignment of the public SlimTrie field) and given the matching
// reader: it must be an exact map over keys.
func evalC12Reload(w *h.Worker, prior, keys []string, bsz int, form string, qs []string) *h.Viol {
	mk := func(ks []string) ([]index.OffsetIndexItem, *recReader) {
		rr := &recReader{byOffset: map[int64][]int{}, keys: ks}
		items := make([]index.OffsetIndexItem, len(ks))
		for i, k := range ks {
			off := int64(i/bsz) * 4096
			items[i] = index.OffsetIndexItem{Key: k, Offset: off}
			rr.byOffset[off] = append(rr.byOffset[off], i)
		}
		return items, rr
	}
	var viol *h.Viol
	if p := h.Safely(func() {
		itA, rrA := mk(prior)
		si, err := index.NewSlimIndex(itA, rrA)
		if err != nil {
			return // a refused build is C08's / the plain C12 phases' business
		}
		itB, rrB := mk(keys)
		other, err := index.NewSlimIndex(itB, rrB)
		if err != nil {
			return
		}
		if strings.HasPrefix(form, "loader") {
			// the only way to make a SlimIndex from serialized data is the literal
			// SlimIndex{SlimTrie: *st, DataReader: dr}: one loader trie opens the
			// stream of A, the index over A is made from it by value, then the same
			// loader opens B; BOTH indexes must stay exact maps
			bufA, e1 := si.Marshal()
			bufB, e2 := other.Marshal()
			if e1 != nil || e2 != nil {
				viol = &h.Viol{Sig: "index-marshal-error", Msg: fmt.Sprintf("Marshal of a SlimIndex failed: %v %v", e1, e2)}
				return
			}
			loader, lerr := trie.NewSlimTrie(encode.I64{}, nil, nil)
			if lerr != nil {
				return
			}
			if err := loader.Unmarshal(bufA); err != nil {
				viol = &h.Viol{Sig: "index-reload-error", Msg: "loading the stream of an index failed: " + err.Error()}
				return
			}
			siA := &index.SlimIndex{SlimTrie: *loader, DataReader: rrA}
			statA, strA := fmt.Sprintf("%+v", *siA.Stat()), siA.String()
			var err error
			switch form {
			case "loader":
				err = loader.Unmarshal(bufB)
			case "loader-reset":
				loader.Reset()
				err = loader.Unmarshal(bufB)
			case "loader-proto":
				err = proto.Unmarshal(bufB, loader)
			}
			if err != nil {
				viol = &h.Viol{Sig: "index-reload-error", Msg: fmt.Sprintf("loading a second stream with the same loader (%s) failed: %v", form, err)}
				return
			}
			siB := &index.SlimIndex{SlimTrie: *loader, DataReader: rrB}
			w.Trans += 2
			if st2, str2 := fmt.Sprintf("%+v", *siA.Stat()), siA.String(); st2 != statA || str2 != strA {
				viol = &h.Viol{Sig: "index-reload", Msg: fmt.Sprintf("one loader, two indexes (%s): Stat / String of the index made BEFORE the loader opened the next stream changed: %s -> %s", form, statA, st2)}
				return
			}
			for _, x := range []struct {
				si *index.SlimIndex
				ks []string
				nm string
			}{{siA, prior, "the index made BEFORE the loader opened the next stream"}, {siB, keys, "the index made from the second stream"}} {
				present := map[string]bool{}
				for _, k := range x.ks {
					present[k] = true
				}
				for i := 0; i < len(x.ks)+len(qs); i++ {
					var q string
					if i < len(x.ks) {
						q = x.ks[i]
					} else if q = qs[i-len(x.ks)]; present[q] {
						continue
					}
					v, found := x.si.RangeGet(q)
					w.Trans++
					if present[q] != found || (found && v != "rec:"+q) || (!found && v != "") {
						viol = &h.Viol{Sig: "index-reload", Msg: fmt.Sprintf("one loader, two indexes (%s): %s: RangeGet(%s) = (%q,%v), want found=%v", form, x.nm, briefQ(q), v, found, present[q])}
						return
					}
				}
			}
			return
		}
		switch form {
		case "unmarshal":
			buf, merr := other.Marshal()
			if merr != nil {
				viol = &h.Viol{Sig: "index-marshal-error", Msg: "Marshal of a SlimIndex failed: " + merr.Error()}
				return
			}
			err = si.Unmarshal(buf)
		case "proto":
			buf, merr := proto.Marshal(other)
			if merr != nil {
				viol = &h.Viol{Sig: "index-marshal-error", Msg: "proto.Marshal of a SlimIndex failed: " + merr.Error()}
				return
			}
			err = proto.Unmarshal(buf, si)
		case "assign":
			si.SlimTrie = other.SlimTrie
		}
		if err != nil {
			viol = &h.Viol{Sig: "index-reload-error", Msg: fmt.Sprintf("reloading a SlimIndex in place (%s) failed: %v", form, err)}
			return
		}
		si.DataReader = rrB
		w.Trans++
		present := map[string]bool{}
		for _, k := range keys {
			present[k] = true
		}
		for i := 0; i < len(keys)+len(qs); i++ {
			var q string
			if i < len(keys) {
				q = keys[i]
			} else {
				q = qs[i-len(keys)]
				if present[q] {
					continue
				}
			}
			var v string
			var found bool
			api := "RangeGet"
			if bsz == 1 && i%2 == 0 {
				api = "Get"
				v, found = si.Get(q)
			} else {
				v, found = si.RangeGet(q)
			}
			w.Trans++
			if present[q] != found || (found && v != "rec:"+q) || (!found && v != "") {
				viol = &h.Viol{Sig: "index-reload", Msg: fmt.Sprintf("after refilling the index in place (%s): %s(%s) = (%q,%v), want found=%v", form, api, briefQ(q), v, found, present[q])}
				return
			}
		}
	}); p != nil {
		return &h.Viol{Sig: "index-panic", Msg: fmt.Sprintf("reload (%s) panicked: %v", form, p)}
	}
	return viol
}

type c12Unit struct {
	keys []string
	qs   []string
	name string
	lite bool // large record sets: one gap pattern, block sizes 1, 3 and 64
	// reload history (prior != nil)
	prior []string
}

func runC12(r *h.Run) {
	thorough := r.Tier == "thorough"
	sp := newSpaceCtx(r.Seed)
	r.Rule = "record sets = all subsets of U(Sigma4,2) up to the tier's size, the shared scaffold set (257-bit nodes, big-node pair / nibble / alias shapes, short tables, shifts) over K(U21,2), plus regular large sets; Get with strictly increasing offsets in 6 patterns (gaps 1, 7, 4096, near 2^62, negative offsets increasing through -1 and 0, near -2^62); RangeGet with block offsets for every block size 1..min(64,n) (records grouped in input order; odd block sizes start at negative offsets); every query of Q plus per-key mutations; reload histories: one SlimIndex value built over A and refilled in place with the index over B (si.Unmarshal, proto.Unmarshal, assignment of the public SlimTrie field) for pairs of K(U21,2), which must then be an exact map over B; the reader verifies the key among the records stored at the offset; oracle: (record, true) for indexed keys, (\"\", false) for every other string. A state is a distinct (key set, offsets); non-trivial = at least 2 records"
	r.Assumptions = []string{"the reader is a harness-side map from offset to records; an unknown offset reads as not found"}
	k := 4
	if thorough {
		k = 6
	}
	r.Bounds["record_sets"] = fmt.Sprintf("K(U21,%d) = %d", k, h.SubsetCount(len(sp.u2), k))
	gaps := []int64{1, 7, 4096, 1 << 58, -1, -(1 << 58)}
	work := func(w *h.Worker, x interface{}) {
		u := x.(c12Unit)
		w.Begin(func() string { return "C12 " + u.name })
		if u.prior != nil {
			for _, form := range []string{"unmarshal", "proto", "assign", "loader", "loader-reset", "loader-proto"} {
				for _, bsz := range []int{1, 2} {
					w.Evals++
					w.Tick()
					w.State(h.Hash64([]byte(strings.Join(u.prior, "\x01")), []byte(strings.Join(u.keys, "\x01")), []byte(form), []byte{byte(bsz)}), len(u.keys) >= 2)
					if v := evalC12Reload(w, u.prior, u.keys, bsz, form, u.qs); v != nil {
						cj := c12Case{KeysHex: hexKeys(u.keys), PriorKeysHex: hexKeys(u.prior), Form: form, Offsets: []int64{int64(bsz)}, QueriesHex: hexKeys(u.qs)}
						v.Msg += fmt.Sprintf(" | prior keys=%v keys=%v block size %d", cj.PriorKeysHex, cj.KeysHex, bsz)
						v.Kind, v.Case, v.Unit = "c12", cj, w.Unit()
						w.Report(*v)
						return
					}
				}
			}
			return
		}
		n := len(u.keys)
		for gi, g := range gaps {
			if u.lite && gi != 1 && gi != 4 {
				continue
			}
			offs := make([]int64, n)
			for i := range offs {
				switch g {
				case 1 << 58:
					offs[i] = (1 << 62) - int64(n-i)*3
				case -1:
					// an offset is any int64: negative ones, increasing through -1 and 0
					offs[i] = int64(i) - int64(n/2) - 1
				case -(1 << 58):
					offs[i] = -(1 << 62) + int64(i)*5
				default:
					offs[i] = int64(i)*g + int64(gi)
				}
			}
			w.Evals++
			w.Tick()
			w.State(h.Hash64([]byte(strings.Join(u.keys, "\x01")), []byte(fmt.Sprint("get", g))), n >= 2)
			if v := evalC12(w, u.keys, offs, "get", u.qs); v != nil {
				reportC12(w, v, u, offs, "get")
				return
			}
		}
		maxB := 64
		if n < maxB {
			maxB = n
		}
		if maxB < 1 {
			maxB = 1
		}
		for bsz := 1; bsz <= maxB; bsz++ {
			if u.lite && bsz != 1 && bsz != 3 && bsz != 64 {
				continue
			}
			offs := make([]int64, n)
			for i := range offs {
				offs[i] = int64(i/bsz) * 4096
				if bsz%2 == 1 {
					offs[i] -= 4096 * int64(1+n/bsz/2) // odd block sizes: blocks at negative offsets as well
				}
			}
			w.Evals++
			w.Tick()
			w.State(h.Hash64([]byte(strings.Join(u.keys, "\x01")), []byte(fmt.Sprint("rg", bsz))), n >= 2)
			if v := evalC12(w, u.keys, offs, "rangeget", u.qs); v != nil {
				reportC12(w, v, u, offs, "rangeget")
				return
			}
			w.Feature(fmt.Sprintf("block_size_%02d", bsz))
		}
		w.Sample(map[string]interface{}{"records": len(u.keys), "first_keys_hex": hexKeys(u.keys[:min(3, len(u.keys))]), "queries": len(u.qs), "set": u.name})
	}
	r.Phase("subsets", func(emit func(u interface{}) bool) {
		it := h.NewSubsetIter(len(sp.u2), 0, k)
		for idx := it.Next(); idx != nil; idx = it.Next() {
			keys := h.Pick(sp.u2, idx)
			qs := sp.q2
			if len(keys) <= 4 {
				qs = uniq(sortedCopy(append(append([]string{}, sp.q2...), h.PerKeyQueries(keys, 64)...)))
			}
			if !emit(c12Unit{keys: keys, qs: qs, name: "subset"}) {
				return
			}
		}
	}, work)
	// record sets with the structural shapes of the shared scaffold set
	scs := scaffoldSet(sp, thorough, map[bool][]int{false: {2, 3}, true: {2, 3, 4, 5, 6}}[thorough], nil)
	r.Phase("scaffold-sets", func(emit func(u interface{}) bool) {
		it := h.NewSubsetIter(len(sp.u2), 0, 2)
		for idx := it.Next(); idx != nil; idx = it.Next() {
			if !thorough && len(idx) == 2 && (idx[0]+idx[1])%4 != 0 {
				continue // quick: all sets of <= 1 record and every fourth pair under each scaffold
			}
			for _, sc := range scs {
				s := sc.Apply(h.Pick(sp.u2, idx))
				if !emit(c12Unit{keys: s.Keys, qs: queriesFor(s, sp.q2, false, false), name: "scaffold:" + s.Name}) {
					return
				}
			}
		}
	}, work)
	// every remaining short-table size up to the maximum (10): fillers of up to
	// about 56 k records, over K(U21,1) (quick: every fourth single), reduced
	// offset patterns
	{
		rest := map[bool][]int{false: {4, 5, 6, 7, 8, 9, 10}, true: {7, 8, 9, 10}}[thorough]
		var big []h.Scaffold
		for _, s := range rest {
			if f := shortFiller(sp.sigma, s, false); f != nil {
				big = append(big, h.ScaffoldFixed(fmt.Sprintf("short%d", s), f, "\xb0"))
			}
		}
		r.Bounds["large_short_table_sets"] = fmt.Sprintf("short-table sizes %v over K(U21,1), Get gap 7, RangeGet block sizes 1, 3, 64", rest)
		r.Phase("large-short-table-sets", func(emit func(u interface{}) bool) {
			it := h.NewSubsetIter(len(sp.u2), 0, 1)
			for idx := it.Next(); idx != nil; idx = it.Next() {
				if !thorough && len(idx) == 1 && idx[0]%4 != 0 {
					continue
				}
				for _, sc := range big {
					s := sc.Apply(h.Pick(sp.u2, idx))
					if !emit(c12Unit{keys: s.Keys, qs: queriesFor(s, sp.q2, false, false), name: "scaffold:" + s.Name, lite: true}) {
						return
					}
				}
			}
		}, work)
	}
	// reload histories: one SlimIndex value built over A, refilled in place with
	// the index over B (three forms), for all pairs of record sets of K(U21,2)
	{
		rk := 2
		r.Bounds["reload_histories"] = fmt.Sprintf("all ordered pairs (A, B) of K(U21,%d) x {si.Unmarshal, proto.Unmarshal, field assignment} x block sizes {1, 2}", rk)
		var sets [][]string
		it := h.NewSubsetIter(len(sp.u2), 1, rk)
		for idx := it.Next(); idx != nil; idx = it.Next() {
			sets = append(sets, h.Pick(sp.u2, idx))
		}
		r.Phase("reload-histories", func(emit func(u interface{}) bool) {
			for ai, a := range sets {
				for bi, b := range sets {
					if !thorough && (ai+bi)%4 != 0 {
						continue // quick: every fourth pair
					}
					if !emit(c12Unit{keys: b, prior: a, qs: sp.q2, name: "reload"}) {
						return
					}
				}
			}
		}, work)
	}
	fams := manyFamilies(sp, thorough)
	r.Phase("regular-sets", func(emit func(u interface{}) bool) {
		for _, f := range fams {
			if len(f.Keys) > 2500 {
				continue
			}
			if !emit(c12Unit{keys: f.Keys, qs: manyQueries(f.Keys), name: f.Name}) {
				return
			}
		}
	}, work)
}

func sortedCopy(s []string) []string {
	sort.Strings(s)
	return s
}

func min(a, b int) int {
	if a < b {
		return a
	}
	return b
}

func reportC12(w *h.Worker, v *h.Viol, u c12Unit, offs []int64, mode string) {
	cj := c12Case{KeysHex: hexKeys(u.keys), Offsets: offs, Mode: mode}
	if len(u.qs) <= 3000 {
		cj.QueriesHex = hexKeys(u.qs)
	}
	if len(u.keys) <= 8 {
		v.Msg += fmt.Sprintf(" | keys=%v offsets=%v", cj.KeysHex, offs)
	} else {
		v.Msg += fmt.Sprintf(" | set %s (%d records)", u.name, len(u.keys))
	}
	v.Kind, v.Case, v.Unit = "c12", cj, w.Unit()
	w.Report(*v)
}

func replayC12(prop string, raw []byte) *h.Viol {
	var cj c12Case
	if err := jsonUnmarshal(raw, &cj); err != nil {
		return &h.Viol{Msg: err.Error()}
	}
	dec := func(hs []string) []string {
		var out []string
		for _, x := range hs {
			var b []byte
			fmt.Sscanf(x, "%x", &b)
			out = append(out, string(b))
		}
		return out
	}
	keys := dec(cj.KeysHex)
	qs := dec(cj.QueriesHex)
	if len(qs) == 0 {
		qs = manyQueries(keys)
	}
	w := h.NewRun(prop, "quick", 0, "model_checking", 0).W0()
	if cj.Form != "" {
		return evalC12Reload(w, dec(cj.PriorKeysHex), keys, int(cj.Offsets[0]), cj.Form, qs)
	}
	return evalC12(w, keys, cj.Offsets, cj.Mode, qs)
}

// ---------- C17: filter-mode size ----------

type c17Case struct {
	Opt       string   `json:"opt,omitempty"` // option form ("" = no Opt argument)
	KeysHex   []string `json:"keys_hex,omitempty"`
	Family    string   `json:"family,omitempty"`
	PrefixLen int      `json:"prefix_len"`
	PrefixSym int      `json:"prefix_sym"`
}

// filterForms are the option forms that ask for filter mode: every combination of
// DedupValue in {nil,false,true} and InnerPrefix, LeafPrefix, Complete in {nil,false}.
func filterForms() []h.Opt4 {
	var out []h.Opt4
	for d := int8(-1); d <= 1; d++ {
		for i := int8(-1); i <= 0; i++ {
			for l := int8(-1); l <= 0; l++ {
				for c := int8(-1); c <= 0; c++ {
					out = append(out, h.Opt4{D: d, I: i, L: l, C: c})
				}
			}
		}
	}
	return out
}

func sizeOf(keys []string, form *h.Opt4) (int, error) {
	var st *trie.SlimTrie
	var err error
	if form == nil {
		st, err = trie.NewSlimTrie(encode.Dummy{}, keys, nil)
	} else {
		st, err = trie.NewSlimTrie(encode.Dummy{}, keys, nil, form.ToOpt())
	}
	if err != nil {
		return 0, err
	}
	b, err := st.Marshal()
	if err != nil {
		return 0, err
	}
	return len(b), nil
}

const c17PerKey, c17Const, c17LiftTol = 8, 256, 24

var allFilterForms = filterForms()

// evalC17 checks the absolute bound for keys and the lift bound for (keys, P+keys).
func evalC17(w *h.Worker, keys []string, P string, form *h.Opt4) *h.Viol {
	var sz, sz2 int
	var err, err2 error
	if p := h.Safely(func() {
		sz, err = sizeOf(keys, form)
		if P != "" {
			lifted := make([]string, len(keys))
			for i, k := range keys {
				lifted[i] = P + k
			}
			sz2, err2 = sizeOf(lifted, form)
		}
	}); p != nil || err != nil || err2 != nil {
		w.DontCare++
		return nil // build problems are C08's business
	}
	w.Trans++
	n := len(keys)
	if sz > c17PerKey*n+c17Const {
		return &h.Viol{Sig: "size-not-linear", Msg: fmt.Sprintf("filter-mode index of %d keys takes %d bytes > 8n+256 = %d", n, sz, c17PerKey*n+c17Const)}
	}
	if P != "" {
		w.Trans++
		if sz2 > c17PerKey*n+c17Const {
			return &h.Viol{Sig: "size-not-linear", Msg: fmt.Sprintf("filter-mode index of %d keys with a %d-byte common prefix takes %d bytes > 8n+256", n, len(P), sz2)}
		}
		d := sz2 - sz
		if d < 0 {
			d = -d
		}
		if d > c17LiftTol {
			return &h.Viol{Sig: "size-depends-on-key-length", Msg: fmt.Sprintf("prepending a %d-byte prefix to %d keys changes the size from %d to %d bytes", len(P), n, sz, sz2)}
		}
		w.Outcome(fmt.Sprintf("lift_delta_%d", d))
	}
	return nil
}

type c17Unit struct {
	keys   []string
	family string
	small  bool
}

func c17Prefixes(sigma []byte, thorough bool) []string {
	lens := []int{1, 3, 100, 256, 16000}
	if thorough {
		lens = []int{1, 2, 3, 100, 255, 256, 4096, 16000}
	}
	var ps []string
	for _, l := range lens {
		for si, s := range sigma {
			if !thorough && l >= 100 && si%2 == 1 {
				continue
			}
			ps = append(ps, strings.Repeat(string([]byte{s}), l))
		}
	}
	return ps
}

func c17Families(sp *spaceCtx, thorough bool) map[string][]string {
	fams := map[string][]string{}
	// binary caterpillars: key i shares i*run bytes with the next one
	cat := func(n, run int) []string {
		var keys []string
		spine := ""
		for i := 0; i < n; i++ {
			keys = append(keys, spine+"\x10")
			spine += "\x20" + strings.Repeat("\x33", run)
		}
		sort.Strings(keys)
		return keys
	}
	ns := []int{1, 2, 3, 10, 100, 1000}
	if thorough {
		ns = append(ns, 5000)
	}
	for _, n := range ns {
		for _, run := range []int{0, 1, 3} {
			if n*run > 12000 || n*(run+1) > 16000 {
				continue
			}
			fams[fmt.Sprintf("caterpillar(n=%d,run=%d)", n, run)] = cat(n, run)
		}
	}
	fams["caterpillar(n=2,run=16000)"] = cat(2, 16000)
	// f-ary caterpillars: every inner node has the SAME label bitmap with f labels
	// (f-1 leaves and the spine), for every f = 2..16 and every number of levels:
	// one frequent bitmap of every popcount, which is what the short-table cost
	// model decides on; labels in the low and in the high nibble
	maxLevels := 30
	if thorough {
		maxLevels = 120
	}
	for f := 2; f <= 16; f++ {
		for levels := 1; levels <= maxLevels; levels++ {
			for _, high := range []bool{false, true} {
				var keys []string
				spine := ""
				lab := func(d int) string {
					if high {
						return string([]byte{byte(d)<<4 | 3})
					}
					return string([]byte{0x30 | byte(d)})
				}
				for l := 0; l < levels; l++ {
					for d := 0; d < f-1; d++ {
						keys = append(keys, spine+lab(d))
					}
					spine += lab(f - 1)
				}
				keys = append(keys, spine)
				sort.Strings(keys)
				fams[fmt.Sprintf("fary-caterpillar(f=%d,levels=%d,high=%v)", f, levels, high)] = keys
			}
		}
	}
	// no step anywhere: the keys branch at every 4-bit position (all strings of
	// length L over bytes whose high and low nibble both vary), so the inner-prefix
	// array is empty until a common prefix is prepended
	for _, nib := range [][]byte{{1, 2}, {1, 2, 0xf}, {0, 7, 8, 0xf}} {
		var ab []byte
		for _, hi := range nib {
			for _, lo := range nib {
				ab = append(ab, hi<<4|lo)
			}
		}
		maxL := 5
		if len(ab) > 4 {
			maxL = 3
		}
		if len(ab) > 9 {
			maxL = 2
		}
		for L := 1; L <= maxL; L++ {
			var keys []string
			var gen func(p string, d int)
			gen = func(p string, d int) {
				if d == 0 {
					keys = append(keys, p)
					return
				}
				for _, c := range ab {
					gen(p+string([]byte{c}), d-1)
				}
			}
			gen("", L)
			sort.Strings(keys)
			fams[fmt.Sprintf("dense-nibbles(%d symbols,L=%d)", len(ab), L)] = keys
		}
	}
	// every node has a long step: binary tree of depth d with 40-byte runs between branches
	var rec func(prefix string, d int, out *[]string)
	rec = func(prefix string, d int, out *[]string) {
		if d == 0 {
			*out = append(*out, prefix)
			return
		}
		run := strings.Repeat("\x55", 40)
		rec(prefix+run+"\x01", d-1, out)
		rec(prefix+run+"\xf1", d-1, out)
	}
	for _, d := range []int{3, 6, 9} {
		var keys []string
		rec("", d, &keys)
		sort.Strings(keys)
		fams[fmt.Sprintf("long-steps(depth=%d)", d)] = keys
	}
	// fan-out 11 byte nodes
	f11 := []byte{0x05, 0x1a, 0x2b, 0x3c, 0x4d, 0x5e, 0x6f, 0x80, 0x91, 0xa2, 0xb3}
	depth := 3
	if thorough {
		depth = 4
	}
	fams[fmt.Sprintf("fanout11(depth=%d)", depth)] = h.Universe(f11, depth)[0:0]
	{
		var keys []string
		var gen func(p string, d int)
		gen = func(p string, d int) {
			if d == 0 {
				keys = append(keys, p)
				return
			}
			for _, c := range f11 {
				gen(p+string([]byte{c}), d-1)
			}
		}
		gen("", depth)
		sort.Strings(keys)
		fams[fmt.Sprintf("fanout11(depth=%d)", depth)] = keys
	}
	// all-distinct label bitmaps: node i has label set = binary expansion of a counter (defeats the short table)
	{
		var keys []string
		cnt := 600
		if thorough {
			cnt = 6000
		}
		for i := 0; i < cnt; i++ {
			p := string([]byte{byte(0x21 + i%9), byte(i / 9 % 251), byte(i / 9 / 251)})
			bm := 3 + i*7%65533 // >= 2 labels
			for l := 0; l < 16; l++ {
				if bm>>uint(l)&1 == 1 {
					keys = append(keys, p+string([]byte{byte(l)<<4 | 3}))
				}
			}
		}
		sort.Strings(keys)
		fams["distinct-bitmaps"] = uniq(keys)
	}
	for _, name := range []string{"11vl5", "300vl50", "10ll16k"} {
		fams["testkeys:"+name] = append([]string{}, testkeys.Load(name)...)
	}
	if thorough {
		fams["testkeys:20kvl10"] = append([]string{}, testkeys.Load("20kvl10")...)
		fams["testkeys:50kl10"] = append([]string{}, testkeys.Load("50kl10")...)
	}
	for _, f := range manyFamilies(sp, thorough) {
		fams["many:"+f.Name] = f.Keys
	}
	return fams
}

func runC17(r *h.Run) {
	thorough := r.Tier == "thorough"
	sp := newSpaceCtx(r.Seed)
	r.Rule = "filter mode, nil values, in every option form that asks for it (no Opt argument and all 24 combinations of DedupValue in {nil,false,true} x InnerPrefix, LeafPrefix, Complete in {nil,false} on the small sets; no-Opt, all-explicit-false and Complete=false alone on the large families): all subsets of U(Sigma4,2) up to the tier's size (K(U85,3) in thorough), all scaffolds of the tier, and adversarial families (binary caterpillars n<=5000 with runs 0..3 and 16000 bytes, dense-nibble sets without any step (all strings of length L over 4 / 9 / 16 bytes whose nibbles both vary), f-ary caterpillars (every node the same f-label bitmap) for every f = 2..16 x every level count 1..30 (thorough 1..120) x low/high nibble, every-node-has-a-long-step trees, fan-out-11 byte nodes, all-distinct label bitmaps, testkeys sets, regular sets); for every explored K and every prefix P of the tier's list (1..16000 bytes of each alphabet symbol) the pair (K, P+K); oracle: len(Marshal) <= 8n+256 for both, |len(K) - len(P+K)| <= 24. A state is a distinct key set; non-trivial = at least 2 keys"
	r.Assumptions = []string{"tolerance 24 bytes for a lift: one root step (2 bytes), element count, one presence bit and varint / length-prefix growth; stored key material would add |P| >= 100 for the prefixes that decide"}
	prefixes := c17Prefixes(sp.sigma, thorough)
	r.Bounds["prefixes"] = len(prefixes)
	k := 4
	if thorough {
		k = 6
	}
	work := func(w *h.Worker, x interface{}) {
		u := x.(c17Unit)
		w.Begin(func() string { return fmt.Sprintf("C17 %s n=%d", u.family, len(u.keys)) })
		w.State(h.Hash64([]byte(strings.Join(u.keys, "\x01"))), len(u.keys) >= 2)
		ps := prefixes
		maxKey := 0
		for _, kk := range u.keys {
			if len(kk) > maxKey {
				maxKey = len(kk)
			}
		}
		for _, P := range append([]string{""}, ps...) {
			if len(P)+maxKey > 16384 {
				continue // beyond the documented key length
			}
			if !u.small && len(P) > 0 && len(u.keys)*len(P) > 40000000 {
				continue
			}
			// option forms: every filter-mode form on the small sets without a
			// prefix and with the 100-byte prefixes; no-Opt, all-explicit-false and
			// Complete=false alone elsewhere
			forms := []*h.Opt4{nil, {D: 1, I: 0, L: 0, C: 0}, {D: -1, I: -1, L: -1, C: 0}}
			if u.small && (len(P) == 0 || len(P) == 100) {
				forms = []*h.Opt4{nil}
				for _, f := range allFilterForms {
					f := f
					forms = append(forms, &f)
				}
			}
			var v *h.Viol
			var bad *h.Opt4
			for _, f := range forms {
				w.Evals++
				w.Tick()
				if v = evalC17(w, u.keys, P, f); v != nil {
					bad = f
					break
				}
			}
			if v != nil {
				cj := c17Case{PrefixLen: len(P), Family: u.family}
				if bad != nil {
					cj.Opt = bad.String()
					v.Msg += " opt=" + bad.String()
				} else {
					v.Msg += " (no Opt argument)"
				}
				if len(P) > 0 {
					cj.PrefixSym = int(P[0])
				}
				if len(u.keys) <= 64 {
					cj.KeysHex = hexKeys(u.keys)
					cj.Family = ""
				}
				v.Msg += fmt.Sprintf(" | family=%s n=%d", u.family, len(u.keys))
				v.Kind, v.Case, v.Unit = "c17", cj, w.Unit()
				w.Report(*v)
				return
			}
		}
		w.Sample(map[string]interface{}{"family": u.family, "n": len(u.keys), "prefixes": len(ps)})
	}
	// the adversarial families first: they are the cheapest phase and the one
	// that matters most if a later phase uses up the budget
	fams := c17Families(sp, thorough)
	var names []string
	for n := range fams {
		names = append(names, n)
	}
	sort.Strings(names)
	r.Bounds["families"] = names
	r.Phase("families", func(emit func(u interface{}) bool) {
		for _, n := range names {
			if !emit(c17Unit{keys: fams[n], family: n}) {
				return
			}
		}
	}, work)
	r.Phase("subsets", func(emit func(u interface{}) bool) {
		it := h.NewSubsetIter(len(sp.u2), 0, k)
		for idx := it.Next(); idx != nil; idx = it.Next() {
			if !emit(c17Unit{keys: h.Pick(sp.u2, idx), family: "subset", small: true}) {
				return
			}
		}
	}, work)
	scs := scaffoldSet(sp, thorough, map[bool][]int{false: {2, 3}, true: {2, 3, 4, 5, 6}}[thorough], nil)
	r.Phase("scaffolds", func(emit func(u interface{}) bool) {
		it := h.NewSubsetIter(len(sp.u2), 0, 2)
		for idx := it.Next(); idx != nil; idx = it.Next() {
			for _, sc := range scs {
				if thorough && len(idx) == 2 && strings.HasPrefix(sc.Name, "shift") {
					continue // thorough: the 130 shift offsets range over K(U21,1)
				}
				s := sc.Apply(h.Pick(sp.u2, idx))
				if !emit(c17Unit{keys: s.Keys, family: "scaffold:" + s.Name, small: true}) {
					return
				}
			}
		}
	}, work)
	if thorough {
		u3 := h.Universe(sp.sigma, 3)
		r.Phase("K(U85,3)", func(emit func(u interface{}) bool) {
			it := h.NewSubsetIter(len(u3), 1, 3)
			for idx := it.Next(); idx != nil; idx = it.Next() {
				if !emit(c17Unit{keys: h.Pick(u3, idx), family: "subset85", small: true}) {
					return
				}
			}
		}, work)
	}
}

func replayC17(prop string, raw []byte) *h.Viol {
	var cj c17Case
	if err := jsonUnmarshal(raw, &cj); err != nil {
		return &h.Viol{Msg: err.Error()}
	}
	var keys []string
	if cj.Family != "" {
		for _, th := range []bool{false, true} {
			if k, ok := c17Families(newSpaceCtx(0), th)[cj.Family]; ok {
				keys = k
				break
			}
		}
		if keys == nil {
			return &h.Viol{Msg: "unknown family " + cj.Family}
		}
	} else {
		for _, kh := range cj.KeysHex {
			var b []byte
			fmt.Sscanf(kh, "%x", &b)
			keys = append(keys, string(b))
		}
	}
	P := strings.Repeat(string([]byte{byte(cj.PrefixSym)}), cj.PrefixLen)
	w := h.NewRun(prop, "quick", 0, "model_checking", 0).W0()
	var form *h.Opt4
	if cj.Opt != "" {
		f := h.ParseOpt4(cj.Opt)
		form = &f
	}
	return evalC17(w, keys, P, form)
}
