package sched

import (
	"fmt"
	"time"
)

// Scenario is a closed system: a fixed set of thread bodies over one shared instance.
type Scenario struct {
	Name string
	Ops  []string
	Mk   func() []*Thread
	Solo []string // result of each body when run alone
	// Changed reports whether the shared state (instance + package globals)
	// changed since the previous call.
	Changed func() bool
	// CacheOK: use the lattice cache (false for scenarios whose lattice is too big:
	// they are explored to the preemption bound only)
	CacheOK bool
}

// Stats reports what an exploration covered.
type Stats struct {
	Runs           int64 // complete executions (schedules)
	Steps          int64 // transitions executed
	States         int64 // distinct lattice states visited while the cache was valid
	DigestChanges  int64 // steps that changed the shared state
	StepsPerThread []int
	Complete       bool // every state / transition of the interleaving lattice covered (no shared write seen)
	BoundDone      int  // preemption bound completed in the uncached part (-1 if unused)
	DeadlineHit    bool
	Outcomes       map[string]int64
}

// Violation is a schedule on which a thread's result differs from its solo result.
type Violation struct {
	Scenario string   `json:"scenario"`
	Ops      []string `json:"ops"`
	Schedule []int    `json:"schedule"` // thread id per step
	Thread   int      `json:"thread"`
	Got      string   `json:"got"`
	Want     string   `json:"want"`
	Msg      string   `json:"message"`
}

type item struct {
	parent  []int32 // choices of the parent path (shared, immutable)
	trace   []uint64
	at      int
	alt     int32
	preempt int
	cached  bool
	succKey uint64
}

// key packs a step vector (at most 3 threads, < 2^21 steps each).
func key(pos []int) uint64 {
	var k uint64
	for i, p := range pos {
		k |= uint64(p) << (21 * uint(i))
	}
	return k
}

// Explore explores the scenario.  useCache: identify states by the per-thread
// step vector while no step changed the shared digest (complete exploration);
// after a digest change, or with useCache=false, alternatives are explored up
// to the preemption bound pb.
func Explore(sc *Scenario, useCache bool, pb int, deadline time.Time, maxSteps int) (*Stats, *Violation, error) {
	st := &Stats{Complete: useCache, BoundDone: -1, Outcomes: map[string]int64{}}
	marked := map[uint64]bool{}
	n := len(sc.Solo)
	stack := []item{{at: 0, alt: -1, cached: useCache}}
	for len(stack) > 0 {
		it := stack[len(stack)-1]
		stack = stack[:len(stack)-1]
		if it.alt >= 0 && it.cached && marked[it.succKey] {
			continue
		}
		if time.Now().After(deadline) {
			st.DeadlineHit = true
			st.Complete = false
			break
		}
		prefix := make([]int, 0, it.at+1)
		for _, c := range it.parent[:it.at] {
			prefix = append(prefix, int(c))
		}
		if it.alt >= 0 {
			prefix = append(prefix, int(it.alt))
		}
		sc.Changed() // baseline
		var changedAt []int
		pts, ths, err := RunOnce(sc.Mk, prefix, func(i int, t int) {
			if sc.Changed() {
				changedAt = append(changedAt, i)
			}
		}, maxSteps)
		if err != nil {
			return st, nil, fmt.Errorf("scenario %s: %v", sc.Name, err)
		}
		st.Runs++
		st.Steps += int64(len(pts))
		st.DigestChanges += int64(len(changedAt))
		// determinism: the replayed prefix must reproduce the parent's (thread, site) sequence
		for j := 0; j < it.at && j < len(pts); j++ {
			if it.trace[j] != uint64(pts[j].Thread)<<32|uint64(uint32(pts[j].Site)) {
				return st, nil, fmt.Errorf("scenario %s: replay divergence at step %d (thread/site %x, recorded %x): nondeterminism not under control", sc.Name, j, uint64(pts[j].Thread)<<32|uint64(uint32(pts[j].Site)), it.trace[j])
			}
		}
		// oracle: every thread returns what it returns when run alone
		for i, t := range ths {
			if t.Result != sc.Solo[i] {
				sched := make([]int, len(pts))
				for j, p := range pts {
					sched[j] = p.Thread
				}
				return st, &Violation{Scenario: sc.Name, Ops: sc.Ops, Schedule: sched, Thread: i, Got: t.Result, Want: sc.Solo[i]}, nil
			}
		}
		if st.StepsPerThread == nil {
			st.StepsPerThread = make([]int, n)
			for i, t := range ths {
				st.StepsPerThread[i] = t.Steps
			}
		}
		firstChange := len(pts) + 1
		if len(changedAt) > 0 {
			firstChange = changedAt[0]
			st.Complete = false
		}
		// positions before each point; mark states while the cache is valid
		choices := make([]int32, len(pts))
		trace := make([]uint64, len(pts))
		pos := make([]int, n)
		preempt := 0
		type altRec struct {
			at      int
			alt     int32
			preempt int
			cached  bool
			key     uint64
		}
		var alts []altRec
		cacheValid := it.cached
		for i, p := range pts {
			choices[i] = int32(p.Chosen)
			trace[i] = uint64(p.Thread)<<32 | uint64(uint32(p.Site))
			if cacheValid && i > firstChange {
				cacheValid = false
			}
			if cacheValid {
				k := key(pos)
				if !marked[k] {
					marked[k] = true
					st.States++
				}
			}
			stillEnabled := p.Running >= 0 && p.Enabled[0] == p.Running
			if i >= len(prefix) {
				for a := 1; a < len(p.Enabled); a++ {
					cost := preempt
					if stillEnabled {
						cost++
					}
					if cacheValid {
						pos[p.Enabled[a]]++
						k := key(pos)
						pos[p.Enabled[a]]--
						if !marked[k] {
							alts = append(alts, altRec{i, int32(a), cost, true, k})
						}
					} else if cost <= pb {
						alts = append(alts, altRec{i, int32(a), cost, false, 0})
					}
				}
			}
			if p.Chosen != 0 && stillEnabled {
				preempt++
			}
			pos[p.Thread]++
		}
		if cacheValid {
			k := key(pos)
			if !marked[k] {
				marked[k] = true
				st.States++
			}
		}
		// push in reverse so that the earliest alternative is explored first
		for i := len(alts) - 1; i >= 0; i-- {
			a := alts[i]
			stack = append(stack, item{parent: choices, trace: trace, at: a.at, alt: a.alt, preempt: a.preempt, cached: a.cached, succKey: a.key})
		}
		if len(stack) > 20000000 {
			return st, nil, fmt.Errorf("scenario %s: work list exceeds 20M items", sc.Name)
		}
	}
	if !st.DeadlineHit && (!useCache || !st.Complete) {
		st.BoundDone = pb
	}
	return st, nil, nil
}

// Replay runs one schedule given as thread ids per step and returns the results.
func Replay(sc *Scenario, schedule []int, maxSteps int) ([]string, error) {
	ths := sc.Mk()
	x := &Exec{threads: ths, arrive: make(chan int)}
	for _, t := range ths {
		t.resume = make(chan struct{})
	}
	current = x
	defer func() { current = nil }()
	started := make([]bool, len(ths))
	running := -1
	for i := 0; ; i++ {
		var en []int
		for _, t := range ths {
			if !t.done {
				en = append(en, t.ID)
			}
		}
		if len(en) == 0 {
			break
		}
		var t *Thread
		if i < len(schedule) {
			if schedule[i] >= len(ths) || ths[schedule[i]].done {
				return nil, fmt.Errorf("replay divergence at step %d: thread %d is not enabled", i, schedule[i])
			}
			t = ths[schedule[i]]
		} else if running >= 0 && !ths[running].done {
			t = ths[running]
		} else {
			t = ths[en[0]]
		}
		x.step(t, started)
		running = t.ID
		if maxSteps > 0 && i > maxSteps {
			return nil, fmt.Errorf("step limit exceeded in replay")
		}
	}
	res := make([]string, len(ths))
	for i, t := range ths {
		res[i] = t.Result
	}
	return res, nil
}
