// Package sched is a cooperative scheduler and stateless explorer for the
// instrumented library: n harness threads are goroutines of which exactly one
// runs; at every scheduling point the running thread hands control to the
// scheduler, which follows a choice prefix and then choice 0.
package sched

import (
	"fmt"
	"time"
)

// Thread is one harness thread of one execution.
type Thread struct {
	ID     int
	Body   func() string
	Result string
	Steps  int
	done   bool
	resume chan struct{}
}

// Exec is the state of one controlled execution.
type Exec struct {
	threads  []*Thread
	arrive   chan int
	cur      *Thread
	lastSite int32
}

var current *Exec

// Point is the hook called by the instrumented code at every scheduling point.
func Point(site int32) {
	x := current
	if x == nil || x.cur == nil {
		return
	}
	t := x.cur
	t.Steps++
	x.lastSite = site
	x.arrive <- t.ID
	<-t.resume
}

// PointRec is one scheduling decision.
type PointRec struct {
	Enabled []int // canonical order: running thread first if still enabled, then ascending ids
	Chosen  int   // index into Enabled
	Running int   // thread that ran before this point (-1 at the start)
	Site    int32 // site the chosen thread stopped at after this decision (0 = finished)
	Thread  int
}

func (x *Exec) step(t *Thread, started []bool) {
	x.cur = t
	if !started[t.ID] {
		started[t.ID] = true
		go func(t *Thread) {
			<-t.resume
			func() {
				defer func() {
					if r := recover(); r != nil {
						t.Result = fmt.Sprintf("panic: %v", r)
					}
				}()
				t.Result = t.Body()
			}()
			t.done = true
			x.lastSite = 0
			x.arrive <- -t.ID - 1
		}(t)
	}
	t.resume <- struct{}{}
	<-x.arrive
	x.cur = nil
}

// Observer is called after every step (for digests); it returns true if the
// shared state changed during that step.
type Observer func() bool

// RunOnce executes the threads following prefix, then the default choice (0).
// afterStep (may be nil) is called after every step with the index of the point.
// maxSteps guards against livelock (0 = no limit).
func RunOnce(mk func() []*Thread, prefix []int, afterStep func(i int, t int), maxSteps int) ([]PointRec, []*Thread, error) {
	ths := mk()
	x := &Exec{threads: ths, arrive: make(chan int)}
	for _, t := range ths {
		t.resume = make(chan struct{})
	}
	current = x
	defer func() { current = nil }()
	started := make([]bool, len(ths))
	var pts []PointRec
	running := -1
	for {
		var en []int
		if running >= 0 && !ths[running].done {
			en = append(en, running)
		}
		for _, t := range ths {
			if !t.done && t.ID != running {
				en = append(en, t.ID)
			}
		}
		if len(en) == 0 {
			break
		}
		c := 0
		if len(pts) < len(prefix) {
			c = prefix[len(pts)]
			if c >= len(en) {
				return pts, ths, fmt.Errorf("replay divergence: choice %d of %d enabled at point %d", c, len(en), len(pts))
			}
		}
		t := ths[en[c]]
		x.step(t, started)
		pts = append(pts, PointRec{Enabled: en, Chosen: c, Running: running, Site: x.lastSite, Thread: t.ID})
		if afterStep != nil {
			afterStep(len(pts)-1, t.ID)
		}
		running = t.ID
		if maxSteps > 0 && len(pts) > maxSteps {
			// let the parked threads run freely to their end so goroutines do not leak
			current = nil
			n := 0
			for _, th := range ths {
				if started[th.ID] && !th.done {
					n++
					go func(th *Thread) { th.resume <- struct{}{} }(th)
				}
			}
			timeout := time.After(5 * time.Second)
			for n > 0 {
				select {
				case <-x.arrive:
					n--
				case <-timeout:
					n = 0
				}
			}
			return pts, ths, fmt.Errorf("step limit %d exceeded (livelock?)", maxSteps)
		}
	}
	return pts, ths, nil
}
