package sched

import (
	"fmt"
	"testing"
	"time"
)

// Two threads increment a shared counter non-atomically (read, scheduling point,
// write): the explorer must find the lost update, and the schedule must replay.
func TestExplorerFindsLostUpdate(t *testing.T) {
	var x int
	var gen uint64
	last := uint64(0)
	inc := func() string {
		Point(1)
		v := x
		Point(2)
		x = v + 1
		gen++
		Point(3)
		return "done"
	}
	sc := &Scenario{Name: "lost-update", Ops: []string{"inc", "inc"}}
	sc.Mk = func() []*Thread {
		x = 0
		return []*Thread{{ID: 0, Body: inc}, {ID: 1, Body: func() string { inc(); return fmt.Sprint(x) }}}
	}
	sc.Solo = []string{"done", "2"} // thread 1 expects to see both increments when it finishes last... not in every order
	sc.Changed = func() bool { c := gen != last; last = gen; return c }
	// oracle here: final counter must be 2 whenever thread 1 finishes last; the
	// default schedule (0 fully, then 1) satisfies it, some interleaving does not.
	_, viol, err := Explore(sc, true, 2, time.Now().Add(10*time.Second), 1000)
	if err != nil {
		t.Fatal(err)
	}
	if viol == nil {
		t.Fatal("lost update not found")
	}
	got, err := Replay(sc, viol.Schedule, 1000)
	if err != nil {
		t.Fatal(err)
	}
	got2, _ := Replay(sc, viol.Schedule, 1000)
	if got[viol.Thread] != viol.Got || got2[viol.Thread] != viol.Got {
		t.Fatalf("schedule does not replay: %v %v want %v", got, got2, viol.Got)
	}
}

// Read-only threads: the cache makes the exploration complete; the number of
// lattice states is the product of (steps+1).
func TestExplorerLatticeComplete(t *testing.T) {
	shared := []int{1, 2, 3}
	rd := func(n int) func() string {
		return func() string {
			s := 0
			for i := 0; i < n; i++ {
				Point(int32(i))
				s += shared[i%3]
			}
			return fmt.Sprint(s)
		}
	}
	sc := &Scenario{Name: "readers", Ops: []string{"r5", "r7"}}
	sc.Mk = func() []*Thread { return []*Thread{{ID: 0, Body: rd(5)}, {ID: 1, Body: rd(7)}} }
	sc.Solo = []string{rd(5)(), rd(7)()}
	sc.Changed = func() bool { return false }
	st, viol, err := Explore(sc, true, 2, time.Now().Add(10*time.Second), 1000)
	if err != nil || viol != nil {
		t.Fatal(err, viol)
	}
	// a thread with n points takes n+1 steps (the last one runs to completion)
	want := int64((6 + 1) * (8 + 1))
	if st.States != want || !st.Complete {
		t.Fatalf("states=%d want %d complete=%v", st.States, want, st.Complete)
	}
	// without the cache and bound 2: every schedule with <= 2 preemptions
	st2, _, _ := Explore(sc, false, 2, time.Now().Add(10*time.Second), 1000)
	if st2.Runs < 50 {
		t.Fatalf("only %d schedules explored without the cache", st2.Runs)
	}
	t.Logf("cached: %d runs %d states; uncached pb=2: %d runs", st.Runs, st.States, st2.Runs)
}
