module verif

go 1.12

require (
	github.com/golang/protobuf v1.3.1
	github.com/openacid/errors v0.8.1
	github.com/openacid/low v0.1.21
	github.com/openacid/slim v0.0.0
	github.com/openacid/testkeys v0.1.6
)

replace github.com/openacid/slim => /repo
